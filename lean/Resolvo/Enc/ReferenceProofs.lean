import Resolvo.Enc.Reference
import Resolvo.SpecProofs
namespace Resolvo
open Resolvo.Sat

theorem evalClause_append (a : Nat → Bool) (c d : Clause) :
    evalClause a (c ++ d) = (evalClause a c || evalClause a d) := by
  simp [evalClause, List.any_append]

theorem evalCnf_append (a : Nat → Bool) (f g : Cnf) :
    evalCnf a (f ++ g) = (evalCnf a f && evalCnf a g) := by
  simp [evalCnf, List.all_append]

theorem evalClause_pos (a : Nat → Bool) (cs : List Nat) :
    evalClause a (posClause cs) = true ↔ ∃ c ∈ cs, a c = true := by
  simp [evalClause, posClause, List.any_map, evalLit, List.any_eq_true]

/-- `depClauses` under a guard that is false (i.e. the parent is selected) says `DepsMet`. -/
theorem depClauses_iff (U : Universe) (a : Nat → Bool) (guard : List Lit) (hg : evalClause a guard = false)
    (reqs : List Req) (cons : List Nat) :
    evalCnf a (depClauses U guard reqs cons) = true ↔
      (∀ r ∈ reqs, ∃ c ∈ U.reqCands r, a c = true) ∧ (∀ vs ∈ cons, ∀ t ∈ U.nonMatching vs, a t = false) := by
  unfold depClauses
  rw [evalCnf_append, Bool.and_eq_true]
  apply and_congr
  · simp only [evalCnf, List.all_map, List.all_eq_true, Function.comp]
    constructor
    · intro h r hr
      have := h r hr
      rw [evalClause_append, hg, Bool.false_or] at this
      exact (evalClause_pos a _).mp this
    · intro h r hr
      rw [evalClause_append, hg, Bool.false_or]
      exact (evalClause_pos a _).mpr (h r hr)
  · simp only [evalCnf, List.all_flatMap, List.all_map, List.all_eq_true, Function.comp]
    constructor
    · intro h vs hvs t ht
      have := h vs hvs t ht
      rw [evalClause_append, hg, Bool.false_or] at this
      simpa [evalClause, evalLit] using this
    · intro h vs hvs t ht
      rw [evalClause_append, hg, Bool.false_or]
      simp [evalClause, evalLit, h vs hvs t ht]

/-- `depClauses` under a true guard are all satisfied. -/
theorem depClauses_of_guard (U : Universe) (a : Nat → Bool) (guard : List Lit) (hg : evalClause a guard = true)
    (reqs : List Req) (cons : List Nat) : evalCnf a (depClauses U guard reqs cons) = true := by
  unfold depClauses
  rw [evalCnf_append, Bool.and_eq_true]
  constructor
  · simp only [evalCnf, List.all_map, List.all_eq_true, Function.comp]
    intro r _; rw [evalClause_append, hg, Bool.true_or]
  · simp only [evalCnf, List.all_flatMap, List.all_map, List.all_eq_true, Function.comp]
    intro vs _ t _; rw [evalClause_append, hg, Bool.true_or]

theorem evalClause_nil (a : Nat → Bool) : evalClause a [] = false := rfl

theorem evalClause_negUnit (a : Nat → Bool) (s : Nat) : evalClause a [(s, false)] = !a s := by
  simp [evalClause, evalLit]

theorem solvClauses_iff (U : Universe) (a : Nat → Bool) (s : Nat) :
    evalCnf a (solvClauses U s) = true ↔
      (a s = true → (∃ reqs cons, U.deps s = .known reqs cons ∧
          (∀ r ∈ reqs, ∃ c ∈ U.reqCands r, a c = true) ∧ (∀ vs ∈ cons, ∀ t ∈ U.nonMatching vs, a t = false)) ∧
        U.excluded s = false ∧ U.lockedOut s = false) := by
  unfold solvClauses
  rw [evalCnf_append, Bool.and_eq_true]
  cases has : a s with
  | false =>
    have hg : evalClause a [(s, false)] = true := by rw [evalClause_negUnit, has]; rfl
    simp only [Bool.false_eq_true, false_imp_iff, iff_true]
    constructor
    · cases U.deps s with
      | unknown r => simp [evalCnf, hg]
      | known reqs cons => exact depClauses_of_guard U a _ hg reqs cons
    · split <;> simp [evalCnf, hg]
  | true =>
    have hg : evalClause a [(s, false)] = false := by rw [evalClause_negUnit, has]; rfl
    simp only [true_imp_iff]
    apply and_congr
    · cases hd : U.deps s with
      | unknown r => simp [evalCnf, hg]
      | known reqs cons =>
        rw [depClauses_iff U a _ hg]
        constructor
        · intro h; exact ⟨reqs, cons, rfl, h⟩
        · rintro ⟨reqs', cons', he, h⟩; cases he; exact h
    · cases he : U.excluded s <;> cases hl : U.lockedOut s <;> simp [evalCnf, hg]

theorem pairClauses_iff (U : Universe) (a : Nat → Bool) :
    evalCnf a (pairClauses U) = true ↔
      ∀ s ∈ U.allSolvs, ∀ t ∈ U.allSolvs, a s = true → a t = true → U.nameOf s = U.nameOf t → s = t := by
  unfold pairClauses
  simp only [evalCnf, List.all_flatMap, List.all_map, List.all_eq_true, Function.comp, List.mem_filter,
    Bool.and_eq_true, bne_iff_ne, ne_eq, beq_iff_eq]
  constructor
  · intro h s hs t ht has hat hn
    apply Classical.byContradiction
    intro hne
    have := h s hs t ⟨ht, hne, hn⟩
    simp [evalClause, evalLit, has, hat] at this
  · intro h s hs t ht
    cases has : a s with
    | false => simp [evalClause, evalLit, has]
    | true =>
      cases hat : a t with
      | false => simp [evalClause, evalLit, hat]
      | true => exact absurd (h s hs t ht.1 has hat ht.2.2) ht.2.1

theorem mem_of_lookup {α : Type} (l : List (Nat × α)) (k : Nat) (v : α) (h : l.lookup k = some v) :
    (k, v) ∈ l := by
  induction l with
  | nil => simp [List.lookup] at h
  | cons x xs ih =>
    obtain ⟨k', v'⟩ := x
    rw [List.lookup_cons] at h
    split at h
    · next heq =>
      have : k = k' := by simpa using heq
      cases h; subst this; exact List.mem_cons_self
    · exact List.mem_cons_of_mem _ (ih h)

theorem candsKnownB_iff (U : Universe) : candsKnownB U = true → CandsKnown U := by
  intro h n p hp c hc
  unfold candsKnownB at h
  have hmem : (n, p) ∈ U.pkgs := mem_of_lookup _ _ _ hp
  have := List.all_eq_true.mp (List.all_eq_true.mp h (n, p) hmem) c hc
  exact List.contains_iff_mem.mp this

theorem reqCands_subset (U : Universe) (hw : CandsKnown U) (r : Req) (c : Nat) (hc : c ∈ U.reqCands r) :
    c ∈ U.allSolvs := by
  unfold Universe.reqCands at hc
  rw [List.mem_flatMap] at hc
  obtain ⟨vs, _, hcv⟩ := hc
  unfold Universe.candsOf at hcv
  rw [Universe.mem_reord, List.mem_filter] at hcv
  have := hcv.1
  unfold Universe.pkgCands at this
  split at this
  · next p hp => exact hw _ p hp c this
  · cases this

/-- a model of the encoding yields a valid selection (the solvables it makes true) -/
theorem encodeAll_sel (U : Universe) (P : Problem) (hw : CandsKnown U) (a : Nat → Bool)
    (ha : evalCnf a (encodeAll U P) = true) : Valid U P.hard (U.allSolvs.filter a) [] := by
  unfold encodeAll at ha
  rw [evalCnf_append, evalCnf_append, Bool.and_eq_true, Bool.and_eq_true] at ha
  obtain ⟨⟨hroot, hsolv⟩, hpair⟩ := ha
  rw [depClauses_iff U a [] (evalClause_nil a)] at hroot
  rw [pairClauses_iff] at hpair
  have hsolv' : ∀ s ∈ U.allSolvs, evalCnf a (solvClauses U s) = true := by
    intro s hs
    simp only [evalCnf, List.all_flatMap, List.all_eq_true] at hsolv
    simp only [evalCnf, List.all_eq_true]
    exact hsolv s hs
  refine ⟨?_, ?_, ?_, ?_⟩
  · refine ⟨fun r hr => ?_, fun vs hvs t ht hm => ?_⟩
    · obtain ⟨c, hc, hac⟩ := hroot.1 r hr
      exact ⟨c, hc, List.mem_filter.mpr ⟨reqCands_subset U hw r c hc, hac⟩⟩
    · have := hroot.2 vs hvs t ht
      rw [(List.mem_filter.mp hm).2] at this; cases this
  · intro s hs
    obtain ⟨hsm, has⟩ := List.mem_filter.mp hs
    obtain ⟨⟨reqs, cons, hd, h1, h2⟩, _⟩ := (solvClauses_iff U a s).mp (hsolv' s hsm) has
    refine ⟨reqs, cons, hd, fun r hr => ?_, fun vs hvs t ht hm => ?_⟩
    · obtain ⟨c, hc, hac⟩ := h1 r hr
      exact ⟨c, hc, List.mem_filter.mpr ⟨reqCands_subset U hw r c hc, hac⟩⟩
    · have := h2 vs hvs t ht
      rw [(List.mem_filter.mp hm).2] at this; cases this
  · intro s hs _
    obtain ⟨hsm, has⟩ := List.mem_filter.mp hs
    exact ((solvClauses_iff U a s).mp (hsolv' s hsm) has).2
  · intro s hs t ht hn
    obtain ⟨hsm, has⟩ := List.mem_filter.mp hs
    obtain ⟨htm, hat⟩ := List.mem_filter.mp ht
    exact hpair s hsm t htm has hat hn

/-- a valid selection is a model of the encoding -/
theorem encodeAll_of_valid (U : Universe) (P : Problem) (sel : List Nat) (hv : Valid U P.hard sel []) :
    evalCnf (fun s => decide (s ∈ sel)) (encodeAll U P) = true := by
  obtain ⟨hroot, hdeps, hex, hone⟩ := hv
  unfold encodeAll
  rw [evalCnf_append, evalCnf_append, Bool.and_eq_true, Bool.and_eq_true]
  refine ⟨⟨?_, ?_⟩, ?_⟩
  · rw [depClauses_iff U _ [] (evalClause_nil _)]
    refine ⟨fun r hr => ?_, fun vs hvs t ht => ?_⟩
    · obtain ⟨c, hc, hcs⟩ := hroot.1 r hr
      exact ⟨c, hc, decide_eq_true hcs⟩
    · exact decide_eq_false (hroot.2 vs hvs t ht)
  · simp only [evalCnf, List.all_flatMap, List.all_eq_true]
    intro s _
    have := (solvClauses_iff U (fun s => decide (s ∈ sel)) s).mpr (by
      intro has
      have hs : s ∈ sel := of_decide_eq_true has
      obtain ⟨reqs, cons, hd, h1, h2⟩ := hdeps s hs
      refine ⟨⟨reqs, cons, hd, fun r hr => ?_, fun vs hvs t ht => ?_⟩, hex s hs (by simp)⟩
      · obtain ⟨c, hc, hcs⟩ := h1 r hr
        exact ⟨c, hc, decide_eq_true hcs⟩
      · exact decide_eq_false (h2 vs hvs t ht))
    simp only [evalCnf, List.all_eq_true] at this
    exact this
  · rw [pairClauses_iff]
    intro s _ t _ has hat hn
    exact hone s (of_decide_eq_true has) t (of_decide_eq_true hat) hn

/-- **The reference encoding is satisfiable exactly when the hard problem is solvable.** -/
theorem encodeAll_iff (U : Universe) (P : Problem) (hw : CandsKnown U) :
    (∃ a, evalCnf a (encodeAll U P) = true) ↔ Solvable U P :=
  ⟨fun ⟨a, ha⟩ => ⟨_, encodeAll_sel U P hw a ha⟩, fun ⟨sel, hv⟩ => ⟨_, encodeAll_of_valid U P sel hv⟩⟩

/-- **`decideSolvable` decides `Solvable`** (for universes whose listed candidates have entries). -/
theorem decideSolvable_iff (U : Universe) (P : Problem) (hw : CandsKnown U) :
    decideSolvable U P = true ↔ Solvable U P := by
  unfold decideSolvable
  rw [decideSat'_iff]
  exact encodeAll_iff U P hw

end Resolvo
