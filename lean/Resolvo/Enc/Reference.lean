import Resolvo.Spec
import Resolvo.Sat.Dpll
/-!
# Eager reference encoding and the verified decision procedure for `Solvable`

`encodeAll U P` is the textbook encoding of the *whole* universe (no laziness, no helper
variables: at-most-one per package is pairwise). `decideSolvable` runs the verified DPLL on it.
It shares no code with the model of the solver and is used as an independent oracle.
-/
namespace Resolvo
open Resolvo.Sat

def Universe.allSolvs (U : Universe) : List Nat := U.solvs.map (·.1)

def posClause (cs : List Nat) : Clause := cs.map (fun c => (c, true))

def depClauses (U : Universe) (guard : List Lit) (reqs : List Req) (cons : List Nat) : Cnf :=
  reqs.map (fun r => guard ++ posClause (U.reqCands r)) ++
  cons.flatMap (fun vs => (U.nonMatching vs).map (fun t => guard ++ [(t, false)]))

def solvClauses (U : Universe) (s : Nat) : Cnf :=
  (match U.deps s with
   | .unknown _ => [[(s, false)]]
   | .known reqs cons => depClauses U [(s, false)] reqs cons) ++
  (if U.excluded s || U.lockedOut s then [[(s, false)]] else [])

def pairClauses (U : Universe) : Cnf :=
  U.allSolvs.flatMap (fun s => (U.allSolvs.filter (fun t => s != t && U.nameOf s == U.nameOf t)).map
    (fun t => [(s, false), (t, false)]))

def encodeAll (U : Universe) (P : Problem) : Cnf :=
  depClauses U [] P.reqs P.constraints ++ U.allSolvs.flatMap (solvClauses U) ++ pairClauses U

def decideSolvable (U : Universe) (P : Problem) : Bool := decideSat' (encodeAll U P)

/-- The only well-formedness the equivalence needs: listed candidates have table entries. -/
def CandsKnown (U : Universe) : Prop := ∀ n p, U.pkg? n = some p → ∀ c ∈ p.cands, c ∈ U.allSolvs

def candsKnownB (U : Universe) : Bool :=
  U.pkgs.all (fun np => np.2.cands.all (fun c => U.allSolvs.contains c))

end Resolvo
