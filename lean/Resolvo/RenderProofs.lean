import Resolvo.Render
/-!
# The message renderer terminates on every conflict graph, and its output is bounded by the size of the graph

`runLoop` models the `while let Some(..) = stack.pop()` loop of `DisplayUnsat::fmt_graph`. Potential function:
every node whose solvable has not been reported yet pays `candBudget + 1`, a candidate on the stack weighs 1, a
requirement with `k` edges weighs `k + 2`. Popping a requirement pushes at most `k` candidates; popping a reported
candidate pushes nothing; popping an unreported candidate marks (at least) it as reported and pushes requirement
groups whose total weight is at most `3·|edges|`. So the potential strictly decreases (`stepOp_decreases`), the loop
ends within `renderFuel` iterations on every graph — cyclic ones included (`runLoop_terminates`) — and writes at most
`renderFuel · (|edges| + 1)` lines (`runLoop_lines`).
-/
namespace Resolvo.Render
open Resolvo Resolvo.Graph

def stackWeight (stack : List (Op × Ind)) : Nat := (stack.map (fun x => opWeight x.1)).sum

/-- number of node indices whose node has not been reported -/
def unrep (g : RG) (reported : List Node) : Nat :=
  (List.range g.nodes.size).countP (fun n => !reported.contains (g.node n))

def pot (g : RG) (reported : List Node) (stack : List (Op × Ind)) : Nat :=
  unrep g reported * (candBudget g + 1) + stackWeight stack

/-- every candidate on the stack is a solvable node (what `dedupChildren` pushes) -/
def CandSolv (g : RG) (stack : List (Op × Ind)) : Prop :=
  ∀ x ∈ stack, ∀ n, x.1 = Op.cand n → ∃ s, g.node n = .solv s

/-- a merged group contains the solvable it is looked up for (true of `simplify`) -/
def MergedOK (merged : List (Nat × List Nat)) : Prop := ∀ s ids, merged.lookup s = some ids → s ∈ ids

theorem stackWeight_append (a b : List (Op × Ind)) : stackWeight (a ++ b) = stackWeight a + stackWeight b := by
  unfold stackWeight; simp [List.map_append, List.sum_append]

theorem stackWeight_reverse (a : List (Op × Ind)) : stackWeight a.reverse = stackWeight a := by
  unfold stackWeight; simp [List.map_reverse, List.sum_reverse]

theorem stackWeight_cons (x : Op × Ind) (a : List (Op × Ind)) : stackWeight (x :: a) = opWeight x.1 + stackWeight a := by
  unfold stackWeight; simp

/-! ### what `dedupChildren` and the requirement groups weigh -/

theorem setFirstLast_weight (l : List (Op × Ind)) : stackWeight (setFirstLast l) = stackWeight l := by
  cases l with
  | nil => rfl
  | cons x rest => obtain ⟨o, i⟩ := x; simp [setFirstLast, stackWeight]

theorem setFirstLast_ops (l : List (Op × Ind)) : (setFirstLast l).map (·.1) = l.map (·.1) := by
  cases l with
  | nil => rfl
  | cons x rest => obtain ⟨o, i⟩ := x; simp [setFirstLast]

theorem dedup_go_spec (c : Ctx) (ind : Ind) (children seen : List Nat) (acc : List (Op × Ind))
    (hacc : ∀ x ∈ acc, ∃ n s, x.1 = Op.cand n ∧ c.g.node n = .solv s) :
    (dedupChildren.go c ind children seen acc).length ≤ acc.length + children.length ∧
    ∀ x ∈ dedupChildren.go c ind children seen acc, ∃ n s, x.1 = Op.cand n ∧ c.g.node n = .solv s := by
  induction children generalizing seen acc with
  | nil =>
    simp only [dedupChildren.go, List.length_reverse, List.length_nil, Nat.add_zero, Nat.le_refl, true_and]
    intro x hx; exact hacc x (List.mem_reverse.mp hx)
  | cons n rest ih =>
    simp only [dedupChildren.go]
    cases hs : solvOfNode? (c.g.node n) with
    | none =>
      simp only []
      have := ih seen acc hacc
      exact ⟨by simp only [List.length_cons]; omega, this.2⟩
    | some s =>
      simp only []
      split
      · have := ih seen acc hacc
        exact ⟨by simp only [List.length_cons]; omega, this.2⟩
      · have hnode : c.g.node n = .solv s := by
          cases hn : c.g.node n with
          | solv s' => rw [hn] at hs; simp [solvOfNode?] at hs; rw [hs]
          | root => rw [hn] at hs; simp [solvOfNode?] at hs
          | unresolved => rw [hn] at hs; simp [solvOfNode?] at hs
          | excl r => rw [hn] at hs; simp [solvOfNode?] at hs
        have hacc' : ∀ x ∈ (Op.cand n, ind.push) :: acc, ∃ n s, x.1 = Op.cand n ∧ c.g.node n = .solv s := by
          intro x hx
          rcases List.mem_cons.mp hx with h | h
          · subst h; exact ⟨n, s, rfl, hnode⟩
          · exact hacc x h
        have := ih (match c.merged.lookup s with | some ids => seen ++ ids | none => seen) _ hacc'
        refine ⟨Nat.le_trans this.1 ?_, this.2⟩
        simp only [List.length_cons]; omega

theorem candWeight_of_all (l : List (Op × Ind)) (h : ∀ x ∈ l, ∃ n, x.1 = Op.cand n) : stackWeight l = l.length := by
  induction l with
  | nil => rfl
  | cons x rest ih =>
    rw [stackWeight_cons, ih (fun y hy => h y (List.mem_cons_of_mem _ hy))]
    obtain ⟨n, hn⟩ := h x List.mem_cons_self
    rw [hn]; simp [opWeight]; omega

theorem dedupChildren_spec (c : Ctx) (children : List Nat) (ind : Ind) :
    stackWeight (dedupChildren c children ind) ≤ children.length ∧
    ∀ x ∈ dedupChildren c children ind, ∃ n s, x.1 = Op.cand n ∧ c.g.node n = .solv s := by
  unfold dedupChildren
  have h := dedup_go_spec c ind children [] [] (by intro x hx; cases hx)
  have hops : ∀ x ∈ setFirstLast (dedupChildren.go c ind children [] []), ∃ n s, x.1 = Op.cand n ∧ c.g.node n = .solv s := by
    intro x hx
    have hm : x.1 ∈ (setFirstLast (dedupChildren.go c ind children [] [])).map (·.1) := List.mem_map.mpr ⟨x, hx, rfl⟩
    rw [setFirstLast_ops] at hm
    obtain ⟨y, hy, hyx⟩ := List.mem_map.mp hm
    obtain ⟨n, s, h1, h2⟩ := h.2 y hy
    exact ⟨n, s, by rw [← hyx]; exact h1, h2⟩
  refine ⟨?_, hops⟩
  rw [setFirstLast_weight, candWeight_of_all _ (fun x hx => by obtain ⟨n, _, h1, _⟩ := h.2 x hx; exact ⟨n, h1⟩)]
  simpa using h.1

/-- the groups `chunkReq` forms out of a list of edges weigh at most three times its length -/
theorem chunkReq_go_weight (g : RG) (edges : List Nat) (cur : Option (Req × List Nat)) (acc : List (Req × List Nat)) :
    ((chunkReq.go g edges cur acc).map (fun grp => grp.2.length + 2)).sum ≤
      3 * edges.length + (match cur with | some c => c.2.length + 2 | none => 0) + (acc.map (fun grp => grp.2.length + 2)).sum := by
  induction edges generalizing cur acc with
  | nil =>
    simp only [chunkReq.go, List.length_nil, Nat.mul_zero, Nat.zero_add]
    cases cur with
    | none => simp [List.map_reverse, List.sum_reverse]
    | some c => simp [List.map_reverse, List.sum_reverse, List.length_reverse]; omega
  | cons e rest ih =>
    simp only [chunkReq.go, List.length_cons]
    cases hk : g.kind e with
    | req r =>
      simp only []
      cases cur with
      | none =>
        simp only []
        have := ih (some (r, [e])) acc
        simp only [List.length_cons, List.length_nil] at this
        omega
      | some c =>
        obtain ⟨r', es⟩ := c
        simp only []
        split
        · have := ih (some (r', e :: es)) acc
          simp only [List.length_cons] at this ⊢
          omega
        · have := ih (some (r, [e])) ((r', es.reverse) :: acc)
          simp only [List.length_cons, List.length_nil, List.map_cons, List.sum_cons, List.length_reverse] at this ⊢
          omega
    | constrains v => simp only []; have := ih cur acc; omega
    | locked l => simp only []; have := ih cur acc; omega
    | forbid => simp only []; have := ih cur acc; omega
    | excluded => simp only []; have := ih cur acc; omega

theorem chunkReq_weight (g : RG) (edges : List Nat) :
    ((chunkReq g edges).map (fun grp => grp.2.length + 2)).sum ≤ 3 * edges.length := by
  have := chunkReq_go_weight g edges none []
  simpa [chunkReq] using this

theorem sortGroups_weight (c : Ctx) (groups : List (Req × List Nat)) :
    ((sortGroups c groups).map (fun grp => grp.2.length + 2)).sum = (groups.map (fun grp => grp.2.length + 2)).sum := by
  unfold sortGroups
  induction groups with
  | nil => rfl
  | cons x rest ih =>
    simp only [List.filter_cons]
    by_cases h : (x.2.any fun e => c.inst.contains (c.g.dst e)) = true
    · simp only [h, Bool.not_true, Bool.false_eq_true, if_false, if_true, List.map_append, List.sum_append, List.map_cons,
        List.sum_cons] at ih ⊢
      omega
    · simp only [h, Bool.not_false, if_true, Bool.false_eq_true, if_false, List.map_append, List.sum_append, List.map_cons,
        List.sum_cons] at ih ⊢
      omega

theorem reqOps_weight (c : Ctx) (ind : Ind) (groups : List (Req × List Nat)) :
    stackWeight (setFirstLast (groups.map (fun grp => (Op.req grp.1 grp.2, ind.push)))) =
      (groups.map (fun grp => grp.2.length + 2)).sum := by
  rw [setFirstLast_weight]
  unfold stackWeight
  simp [List.map_map, Function.comp_def, opWeight]

theorem out_length_le (g : RG) (n : Nat) : (g.out n).length ≤ g.edges.size := by
  unfold RG.out
  rw [List.length_reverse]
  exact Nat.le_trans (List.length_filter_le _ _) (by simp)

/-! ### the reported set only grows, and an unreported candidate becomes reported -/

theorem countP_le_of_imp {α : Type} (p q : α → Bool) (l : List α) (h : ∀ x ∈ l, p x = true → q x = true) :
    l.countP p ≤ l.countP q := by
  induction l with
  | nil => simp
  | cons a rest ih =>
    have ih' := ih (fun x hx => h x (List.mem_cons_of_mem _ hx))
    simp only [List.countP_cons]
    by_cases hp : p a = true
    · have hq := h a List.mem_cons_self hp
      simp only [hp, hq, if_true]; omega
    · simp only [hp, Bool.false_eq_true, if_false]
      by_cases hq : q a = true
      · simp only [hq, if_true]; omega
      · simp only [hq, Bool.false_eq_true, if_false]; omega

theorem countP_lt_of_imp {α : Type} (p q : α → Bool) (l : List α) (h : ∀ x ∈ l, p x = true → q x = true)
    (a : α) (ha : a ∈ l) (hqa : q a = true) (hpa : p a = false) : l.countP p < l.countP q := by
  induction l with
  | nil => cases ha
  | cons b rest ih =>
    simp only [List.countP_cons]
    rcases List.mem_cons.mp ha with hab | hab
    · subst hab
      have := countP_le_of_imp p q rest (fun x hx => h x (List.mem_cons_of_mem _ hx))
      simp only [hqa, hpa, if_true, Bool.false_eq_true, if_false]; omega
    · have := ih (fun x hx => h x (List.mem_cons_of_mem _ hx)) hab
      by_cases hp : p b = true
      · have hq := h b List.mem_cons_self hp
        simp only [hp, hq, if_true]; omega
      · simp only [hp, Bool.false_eq_true, if_false]
        by_cases hq : q b = true
        · simp only [hq, if_true]; omega
        · simp only [hq, Bool.false_eq_true, if_false]; omega

theorem contains_false_iff (l : List Node) (x : Node) : l.contains x = false ↔ x ∉ l := by
  constructor
  · intro h hm; rw [List.contains_iff_mem.mpr hm] at h; cases h
  · intro h
    cases hc : l.contains x with
    | false => rfl
    | true => exact absurd (List.contains_iff_mem.mp hc) h

theorem unrep_mono (g : RG) (r r' : List Node) (h : ∀ x ∈ r, x ∈ r') : unrep g r' ≤ unrep g r := by
  unfold unrep
  apply countP_le_of_imp
  intro n _ hn
  simp only [Bool.not_eq_true'] at hn ⊢
  exact (contains_false_iff _ _).mpr (fun hm => (contains_false_iff _ _).mp hn (h _ hm))

theorem unrep_lt (g : RG) (r r' : List Node) (h : ∀ x ∈ r, x ∈ r') (n : Nat) (hn : n < g.nodes.size)
    (h1 : g.node n ∉ r) (h2 : g.node n ∈ r') : unrep g r' < unrep g r := by
  unfold unrep
  apply countP_lt_of_imp _ _ _ ?_ n (List.mem_range.mpr hn)
  · simp only [Bool.not_eq_true']; exact (contains_false_iff _ _).mpr h1
  · simp only [Bool.not_eq_false']; exact List.contains_iff_mem.mpr h2
  · intro x _ hx
    simp only [Bool.not_eq_true'] at hx ⊢
    exact (contains_false_iff _ _).mpr (fun hm => (contains_false_iff _ _).mp hx (h _ hm))

/-! ### one iteration decreases the potential -/

theorem node_solv_lt (g : RG) (n s : Nat) (h : g.node n = .solv s) : n < g.nodes.size := by
  apply Nat.lt_of_not_ge
  intro hge
  unfold RG.node at h
  rw [Array.getD_eq_getD_getElem?, Array.getElem?_eq_none hge] at h
  cases h

theorem reqBody_spec (c : Ctx) (r : Req) (edges : List Nat) (ind : Ind) :
    stackWeight (reqBody c r edges ind).2 ≤ edges.length ∧
    (∀ x ∈ (reqBody c r edges ind).2, ∀ n, x.1 = Op.cand n → ∃ s, c.g.node n = .solv s) ∧
    (reqBody c r edges ind).1.length ≤ 1 := by
  unfold reqBody
  simp only []
  split
  · simp [stackWeight]
  · split
    · have h := dedupChildren_spec c ((edges.filter (fun e => c.inst.contains (c.g.dst e))).map c.g.dst) ind
      refine ⟨?_, ?_, Nat.le_refl _⟩
      · rw [stackWeight_reverse]
        refine Nat.le_trans h.1 ?_
        rw [List.length_map]
        exact List.length_filter_le _ _
      · intro x hx n hn
        obtain ⟨n', s, h1, h2⟩ := h.2 x (List.mem_reverse.mp hx)
        rw [h1] at hn; cases hn; exact ⟨s, h2⟩
    · have h := dedupChildren_spec c (edges.map c.g.dst) ind
      refine ⟨?_, ?_, Nat.le_refl _⟩
      · rw [stackWeight_reverse]
        refine Nat.le_trans h.1 ?_
        rw [List.length_map]; exact Nat.le_refl _
      · intro x hx n hn
        obtain ⟨n', s, h1, h2⟩ := h.2 x (List.mem_reverse.mp hx)
        rw [h1] at hn; cases hn; exact ⟨s, h2⟩

theorem dedupConsecutive_length (l : List Nat) : (dedupConsecutive l).length ≤ l.length := by
  unfold dedupConsecutive
  have : ∀ (acc : List Nat), (l.foldl (fun acc v => if acc.getLast? == some v then acc else acc ++ [v]) acc).length ≤ acc.length + l.length := by
    induction l with
    | nil => intro acc; simp
    | cons x rest ih =>
      intro acc
      simp only [List.foldl_cons, List.length_cons]
      split
      · have := ih acc; omega
      · have := ih (acc ++ [x]); simp only [List.length_append, List.length_cons, List.length_nil] at this; omega
  simpa using this []

theorem candBody_spec (c : Ctx) (n : Nat) (ind : Ind) (version : String) :
    stackWeight (candBody c n ind version).2 ≤ candBudget c.g ∧
    (∀ x ∈ (candBody c n ind version).2, ∀ m, x.1 ≠ Op.cand m) ∧
    (candBody c n ind version).1.length ≤ c.g.edges.size + 1 := by
  unfold candBody
  simp only []
  split
  · simp [stackWeight]
  · split
    · simp [stackWeight]
    · split
      · simp [stackWeight]
      · split
        · refine ⟨by simp [stackWeight], (fun x hx => by cases hx), ?_⟩
          simp only [List.length_cons, List.length_map, List.length_zipIdx]
          apply Nat.succ_le_succ
          exact Nat.le_trans (dedupConsecutive_length _) (Nat.le_trans (List.length_filterMap_le _ _) (out_length_le c.g n))
        · refine ⟨?_, ?_, by simp⟩
          · rw [stackWeight_reverse, reqOps_weight c, sortGroups_weight]
            have h1 := chunkReq_weight c.g (c.g.out n)
            have h3 := out_length_le c.g n
            unfold candBudget
            omega
          · intro x hx m hm
            have hx' := List.mem_reverse.mp hx
            have hmem : x.1 ∈ (setFirstLast ((sortGroups c (chunkReq c.g (c.g.out n))).map (fun grp => (Op.req grp.1 grp.2, ind.push)))).map (·.1) :=
              List.mem_map.mpr ⟨x, hx', rfl⟩
            rw [setFirstLast_ops] at hmem
            simp only [List.map_map, List.mem_map, Function.comp_def] at hmem
            obtain ⟨grp, _, hg⟩ := hmem
            rw [hm] at hg; cases hg

theorem reportNode_spec (c : Ctx) (hm : MergedOK c.merged) (s : Nat) (reported : List Node) :
    (∀ x ∈ reported, x ∈ (reportNode c s reported).2) ∧ Node.solv s ∈ (reportNode c s reported).2 := by
  unfold reportNode
  cases hl : c.merged.lookup s with
  | none => exact ⟨fun x hx => List.mem_append_left _ hx, List.mem_append_right _ List.mem_cons_self⟩
  | some ids =>
    simp only []
    refine ⟨fun x hx => List.mem_append_left _ hx, List.mem_append_right _ ?_⟩
    exact List.mem_map.mpr ⟨s, hm s ids hl, rfl⟩

/-- **the potential strictly decreases** with every iteration of the loop -/
theorem stepOp_decreases (c : Ctx) (hm : MergedOK c.merged) (op : Op) (ind : Ind) (reported : List Node)
    (hop : ∀ n, op = Op.cand n → ∃ s, c.g.node n = .solv s) :
    unrep c.g (stepOp c op ind reported).2.2 * (candBudget c.g + 1) + stackWeight (stepOp c op ind reported).2.1 <
      unrep c.g reported * (candBudget c.g + 1) + opWeight op ∧
    (∀ x ∈ (stepOp c op ind reported).2.1, ∀ n, x.1 = Op.cand n → ∃ s, c.g.node n = .solv s) ∧
    (stepOp c op ind reported).1.length ≤ c.g.edges.size + 1 := by
  cases op with
  | req r edges =>
    have h := reqBody_spec c r edges ind
    refine ⟨?_, h.2.1, Nat.le_trans h.2.2 (by omega)⟩
    show unrep c.g reported * (candBudget c.g + 1) + stackWeight (reqBody c r edges ind).2 < _
    have := h.1
    simp only [opWeight]
    omega
  | cand n =>
    obtain ⟨s, hs⟩ := hop n rfl
    unfold stepOp
    simp only []
    split
    · refine ⟨?_, (fun x hx => by cases hx), (by simp)⟩
      simp [stackWeight, opWeight]
    · next hnr =>
      rw [hs]
      simp only []
      have hb := candBody_spec c n ind (reportNode c s reported).1
      have hr := reportNode_spec c hm s reported
      have hnotin : c.g.node n ∉ reported := by
        intro hin; exact hnr (List.contains_iff_mem.mpr hin)
      have hlt := unrep_lt c.g reported (reportNode c s reported).2 hr.1 n (node_solv_lt c.g n s hs) hnotin (by rw [hs]; exact hr.2)
      refine ⟨?_, fun x hx m hxm => absurd hxm (hb.2.1 x hx m), hb.2.2⟩
      have h1 := hb.1
      simp only [opWeight]
      have : (unrep c.g (reportNode c s reported).2 + 1) * (candBudget c.g + 1) ≤ unrep c.g reported * (candBudget c.g + 1) :=
        Nat.mul_le_mul_right _ hlt
      rw [Nat.add_mul, Nat.one_mul] at this
      omega

/-! ### termination and the size bound -/

theorem runLoop_terminates (c : Ctx) (hm : MergedOK c.merged) (fuel : Nat) (stack : List (Op × Ind)) (reported : List Node)
    (acc : List String) (hcs : CandSolv c.g stack) (hf : pot c.g reported stack ≤ fuel) :
    ∃ out, runLoop c fuel stack reported acc = some out ∧ out.length ≤ acc.length + fuel * (c.g.edges.size + 1) := by
  induction fuel generalizing stack reported acc with
  | zero =>
    cases stack with
    | nil => exact ⟨acc.reverse, rfl, by simp⟩
    | cons x rest =>
      exfalso
      unfold pot at hf
      rw [stackWeight_cons] at hf
      have : 0 < opWeight x.1 := by cases x.1 <;> simp [opWeight]
      omega
  | succ f ih =>
    cases stack with
    | nil => exact ⟨acc.reverse, rfl, by simp⟩
    | cons x rest =>
      obtain ⟨op, ind⟩ := x
      have hop : ∀ n, op = Op.cand n → ∃ s, c.g.node n = .solv s := fun n hn => hcs (op, ind) List.mem_cons_self n hn
      obtain ⟨hdec, hpush, hlines⟩ := stepOp_decreases c hm op ind reported hop
      simp only [runLoop]
      have hcs' : CandSolv c.g ((stepOp c op ind reported).2.1 ++ rest) := by
        intro y hy n hn
        rcases List.mem_append.mp hy with h | h
        · exact hpush y h n hn
        · exact hcs y (List.mem_cons_of_mem _ h) n hn
      have hf' : pot c.g (stepOp c op ind reported).2.2 ((stepOp c op ind reported).2.1 ++ rest) ≤ f := by
        unfold pot at hf ⊢
        rw [stackWeight_append]
        rw [stackWeight_cons] at hf
        simp only at hf
        omega
      obtain ⟨out, ho, hl⟩ := ih _ _ ((stepOp c op ind reported).1.reverse ++ acc) hcs' hf'
      refine ⟨out, ho, ?_⟩
      simp only [List.length_append, List.length_reverse] at hl
      have : (f + 1) * (c.g.edges.size + 1) = f * (c.g.edges.size + 1) + (c.g.edges.size + 1) := by
        rw [Nat.add_mul, Nat.one_mul]
      omega

theorem mem_of_lookup' (l : List (Nat × List Nat)) (s : Nat) (ids : List Nat) (h : l.lookup s = some ids) : (s, ids) ∈ l := by
  induction l with
  | nil => simp [List.lookup] at h
  | cons x xs ih =>
    obtain ⟨k, v⟩ := x
    rw [List.lookup_cons] at h
    split at h
    · next heq =>
      have hk : s = k := by simpa using heq
      cases h
      rw [hk]
      exact List.mem_cons_self
    · exact List.mem_cons_of_mem _ (ih h)

theorem simplify_mergedOK (U : Universe) (g : RG) : MergedOK (simplify U g) := by
  intro s ids h
  have hmem := mem_of_lookup' _ s ids h
  unfold simplify at hmem
  simp only [List.mem_flatMap, List.mem_map] at hmem
  obtain ⟨m, _, id, hid, heq⟩ := hmem
  cases heq
  exact hid

theorem unrep_le (g : RG) (r : List Node) : unrep g r ≤ g.nodes.size := by
  unfold unrep
  exact Nat.le_trans (List.countP_le_length) (by simp)

/-- **`fmt_graph` terminates on every conflict graph** — whatever its shape, cycles included — and writes at most
    `renderFuel · (|edges| + 1)` lines. -/
theorem fmtGraph_terminates (U : Universe) (g : RG) (inst : List Nat) (topEdges : List Nat) (topIndent : Bool) :
    ∃ out, fmtGraph { U := U, g := g, merged := simplify U g, inst := inst } topEdges topIndent = some out ∧
      out.length ≤ renderFuel g ((setFirstLast ((sortGroups { U := U, g := g, merged := simplify U g, inst := inst }
        (chunkReq g topEdges)).map (fun grp => (Op.req grp.1 grp.2, ({ top := topIndent } : Ind).push)))).reverse) * (g.edges.size + 1) := by
  unfold fmtGraph
  simp only []
  have hcs : CandSolv g ((setFirstLast ((sortGroups { U := U, g := g, merged := simplify U g, inst := inst }
      (chunkReq g topEdges)).map (fun grp => (Op.req grp.1 grp.2, ({ top := topIndent } : Ind).push)))).reverse) := by
    intro x hx n hn
    have hx' := List.mem_reverse.mp hx
    have hmem : x.1 ∈ (setFirstLast ((sortGroups { U := U, g := g, merged := simplify U g, inst := inst }
      (chunkReq g topEdges)).map (fun grp => (Op.req grp.1 grp.2, ({ top := topIndent } : Ind).push)))).map (·.1) :=
      List.mem_map.mpr ⟨x, hx', rfl⟩
    rw [setFirstLast_ops] at hmem
    simp only [List.map_map, List.mem_map, Function.comp_def] at hmem
    obtain ⟨grp, _, hg⟩ := hmem
    rw [hn] at hg; cases hg
  have hf : pot g [] ((setFirstLast ((sortGroups { U := U, g := g, merged := simplify U g, inst := inst }
      (chunkReq g topEdges)).map (fun grp => (Op.req grp.1 grp.2, ({ top := topIndent } : Ind).push)))).reverse) ≤
      renderFuel g ((setFirstLast ((sortGroups { U := U, g := g, merged := simplify U g, inst := inst }
      (chunkReq g topEdges)).map (fun grp => (Op.req grp.1 grp.2, ({ top := topIndent } : Ind).push)))).reverse) := by
    unfold pot renderFuel potential
    have := unrep_le g []
    have hw : ∀ st : List (Op × Ind), stackWeight st = (st.map (fun x => opWeight x.1)).sum := fun _ => rfl
    rw [hw]
    have : unrep g [] * (candBudget g + 1) ≤ (g.nodes.size + 1 - 0) * (candBudget g + 1) :=
      Nat.mul_le_mul_right _ (by omega)
    omega
  obtain ⟨out, ho, hl⟩ := runLoop_terminates { U := U, g := g, merged := simplify U g, inst := inst }
    (simplify_mergedOK U g) _ _ [] [] hcs hf
  exact ⟨out, ho, by simpa using hl⟩

/-- **The model of `DisplayUnsat` never runs out of fuel**: the user-friendly message is produced for every graph. -/
theorem render_total (U : Universe) (g : RG) : (render U g).isSome = true := by
  unfold render
  simp only []
  have h1 := fmtGraph_terminates U g (installableSet g)
  obtain ⟨o1, ho1, _⟩ := h1 ((g.out 0).filter (fun e => (missingSet g).contains (g.dst e))) false
  obtain ⟨o2, ho2, _⟩ := h1 ((g.out 0).filter (fun e => !(missingSet g).contains (g.dst e))) true
  rw [ho1, ho2]
  by_cases c1 : ((g.out 0).filter (fun e => (missingSet g).contains (g.dst e))).isEmpty = true
  · rw [if_pos c1]
    by_cases c2 : ((g.out 0).filter (fun e => !(missingSet g).contains (g.dst e))).isEmpty = true
    · rw [if_pos c2]; rfl
    · rw [if_neg c2]; rfl
  · rw [if_neg c1]
    by_cases c2 : ((g.out 0).filter (fun e => !(missingSet g).contains (g.dst e))).isEmpty = true
    · rw [if_pos c2]; rfl
    · rw [if_neg c2]; rfl

end Resolvo.Render
