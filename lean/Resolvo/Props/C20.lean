import Resolvo.CacheModel
import Resolvo.CacheProofs
import Resolvo.CacheOwners
/-!
# C20 — SolverCache answers are consistent with the provider and stable
-/
namespace Resolvo.C20
open Resolvo Resolvo.CacheM

/-- (a) matching / non-matching partition the package's candidates exactly as `filter_candidates`
    defines (whatever order the provider's filter returns them in), and keep the provider's order when the filter does. -/
theorem partition (U : Universe) (vs : Nat) :
    (∀ x, x ∈ U.pkgCands vs ↔ (x ∈ U.candsOf vs ∨ x ∈ U.nonMatching vs)) ∧
    (∀ x, ¬ (x ∈ U.candsOf vs ∧ x ∈ U.nonMatching vs)) ∧
    (U.filterRev = false → (U.candsOf vs).Sublist (U.pkgCands vs) ∧ (U.nonMatching vs).Sublist (U.pkgCands vs)) := by
  unfold Universe.candsOf Universe.nonMatching
  refine ⟨?_, ?_, ?_⟩
  · intro x
    simp only [Universe.mem_reord, List.mem_filter, Bool.not_eq_true']
    constructor
    · intro h
      cases hm : U.matchesVs vs x
      · exact Or.inr ⟨h, rfl⟩
      · exact Or.inl ⟨h, rfl⟩
    · rintro (h | h) <;> exact h.1
  · intro x
    simp only [Universe.mem_reord, List.mem_filter, Bool.not_eq_true']
    rintro ⟨⟨_, h1⟩, ⟨_, h2⟩⟩
    rw [h1] at h2; cases h2
  · intro h
    unfold Universe.reord
    simp only [h, Bool.false_eq_true, if_false]
    exact ⟨List.filter_sublist, List.filter_sublist⟩

/-- the matching list is exactly what the provider's filter returns: the matching candidates in the provider's candidate
    order, reversed if the filter reverses -/
theorem matching_exact (U : Universe) (vs : Nat) :
    U.candsOf vs = (if U.filterRev then ((U.pkgCands vs).filter (U.matchesVs vs)).reverse else (U.pkgCands vs).filter (U.matchesVs vs)) ∧
    U.nonMatching vs = (if U.filterRev then ((U.pkgCands vs).filter (fun s => !U.matchesVs vs s)).reverse
                        else (U.pkgCands vs).filter (fun s => !U.matchesVs vs s)) := ⟨rfl, rfl⟩

/-- (b) sorted candidates: the matching ones, in `sort_candidates` order … -/
theorem sorted_members (U : Universe) (vs : Nat) (x : Nat) : x ∈ sortedCands U vs ↔ x ∈ U.candsOf vs := by
  unfold sortedCands
  rw [mem_favoredFirst, mem_rankSort]

/-- … with the favored candidate moved to the front and the others' relative order unchanged … -/
theorem sorted_favored (U : Universe) (vs f : Nat) (pre post : List Nat)
    (hfav : pkgFavored U vs = some f) (hs : rankSort U (U.candsOf vs) = pre ++ f :: post) (hpre : f ∉ pre) :
    sortedCands U vs = f :: pre ++ post := by
  unfold sortedCands
  rw [hfav, hs, favoredFirst_split f pre post hpre]

/-- … and untouched when there is no favored candidate or it does not match. -/
theorem sorted_unfavored (U : Universe) (vs : Nat)
    (h : pkgFavored U vs = none ∨ ∃ f, pkgFavored U vs = some f ∧ f ∉ U.candsOf vs) :
    sortedCands U vs = rankSort U (U.candsOf vs) := by
  unfold sortedCands
  rcases h with h | ⟨f, hf, hn⟩
  · rw [h]; rfl
  · rw [hf]
    exact favoredFirst_not_mem f _ (fun hm => hn ((mem_rankSort U f _).mp hm))

theorem sort_is_sorted (U : Universe) (vs : Nat) : RankSorted U (rankSort U (U.candsOf vs)) :=
  rankSort_sorted U _

/-- (c) answers do not depend on the cache state: a repeated query returns identical contents. -/
theorem answer_state_independent (U : Universe) (peek peek' : Bool) (st st' : St) (op : Op)
    (hop : ∀ s, op ≠ .available s ∧ op ≠ .depsStart s ∧ op ≠ .depsDrop s ∧ op ≠ .depsFinish s)
    (hop' : ∀ n k, op ≠ .candStart n k ∧ op ≠ .candDrop k ∧ op ≠ .candOpen n ∧ op ≠ .candPoll k) :
    (step U peek st op).2 = (step U peek' st' op).2 := by
  cases op with
  | candidates n => rfl
  | matching vs => rfl
  | nonMatching vs => rfl
  | sorted r =>
    cases r with
    | single vs => rfl
    | union u => simp only [step]; split <;> split <;> rfl
  | deps s => rfl
  | available s => exact absurd rfl (hop s).1
  | depsStart s => exact absurd rfl (hop s).2.1
  | depsDrop s => exact absurd rfl (hop s).2.2.1
  | depsFinish s => exact absurd rfl (hop s).2.2.2
  | candStart n k => exact absurd rfl (hop' n k).1
  | candDrop k => exact absurd rfl (hop' 0 k).2.1
  | candOpen n => exact absurd rfl (hop' n 0).2.2.1
  | candPoll k => exact absurd rfl (hop' 0 k).2.2.2

theorem fetchCands_idem (U : Universe) (st : St) (n : Nat) :
    fetchCands U (fetchCands U st n) n = fetchCands U st n := by
  unfold fetchCands
  split
  · next h => simp [h]
  · simp

/-- … and a repeated `get_or_cache_candidates` / `get_or_cache_dependencies` does not consult the
    provider again (the call log is unchanged). -/
theorem fetchDeps_idem (st : St) (s : Nat) : fetchDeps (fetchDeps st s) s = fetchDeps st s := by
  unfold fetchDeps
  split
  · next h => simp [h]
  · simp

theorem repeat_no_call (U : Universe) (peek : Bool) (st : St) :
    (∀ n, (step U peek (step U peek st (.candidates n)).1 (.candidates n)).1.log = (step U peek st (.candidates n)).1.log) ∧
    (∀ s, (step U peek (step U peek st (.deps s)).1 (.deps s)).1.log = (step U peek st (.deps s)).1.log) := by
  constructor
  · intro n
    simp only [step]
    rw [fetchCands_idem]
  · intro s
    simp only [step]
    rw [fetchDeps_idem]

/-- (d) the availability query is true exactly for hinted or already-fetched solvables. -/
theorem available_iff (U : Universe) (peek : Bool) (st : St) (s : Nat) :
    (step U peek st (.available s)).2 = .bool true ↔ (s ∈ st.fetchedDeps ∨ s ∈ st.hinted) := by
  simp only [step, Ans.bool.injEq, Bool.or_eq_true, List.contains_iff_mem]

/-- … in particular a dependency request that is merely in flight, or was abandoned, does not make a solvable available:
    starting or dropping a request changes the answer of no availability query -/
theorem inflight_not_available (U : Universe) (peek : Bool) (st : St) (s t : Nat) :
    (step U peek (step U peek st (.depsStart s)).1 (.available t)).2 = (step U peek st (.available t)).2 ∧
    (step U peek (step U peek st (.depsDrop s)).1 (.available t)).2 = (step U peek st (.available t)).2 := by
  constructor
  · simp only [step]
    split
    · rfl
    · split <;> rfl
  · simp only [step]
    split <;> rfl

/-- **Concurrent requests for one package share one provider call.** While a request for the candidates of `n` is in
    flight (a future that sent it is alive), a further `get_or_cache_candidates(n)` does not consult the provider (the
    call log is unchanged) and does not touch the marker … -/
theorem waiter_no_call (U : Universe) (peek : Bool) (st : St) (n k : Nat) (h : st.marker n = true) :
    (step U peek st (.candStart n k)).1.log = st.log ∧ (step U peek st (.candStart n k)).1.marker n = true := by
  simp only [step]
  split
  · exact ⟨rfl, h⟩
  · split
    · exact ⟨rfl, h⟩
    · unfold candEnter
      rw [if_pos h]
      refine ⟨rfl, ?_⟩
      unfold St.marker at h ⊢
      simp only [List.any_append, h, Bool.true_or]

theorem filter_keeps_owner (slots : List (Nat × Slot)) (k : Nat) (n : Nat)
    (h : ∃ p ∈ slots, p.1 ≠ k ∧ p.2.isOwnerOf n = true) : (slots.filter (·.1 != k)).any (fun p => p.2.isOwnerOf n) = true := by
  obtain ⟨p, hp, hk, ho⟩ := h
  exact List.any_eq_true.mpr ⟨p, List.mem_filter.mpr ⟨hp, by simpa using hk⟩, ho⟩

/-- … and abandoning a future that merely *waits* leaves the marker of the request it waited for in place and makes no
    provider call: the request stays the only one (a dropped waiter must not clear the way for a second request). -/
theorem drop_waiter_keeps_request (U : Universe) (peek : Bool) (st : St) (k m : Nat) (b : Bool) (n : Nat)
    (hk : st.slots.lookup k = some (.waiter m b)) (h : ∃ p ∈ st.slots, p.1 ≠ k ∧ p.2.isOwnerOf n = true) :
    (step U peek st (.candDrop k)).1.log = st.log ∧ (step U peek st (.candDrop k)).1.marker n = true := by
  have hs : step U peek st (.candDrop k) = ({ st with slots := st.slots.filter (·.1 != k) }, .word "dropped") := by
    simp only [step, hk]
  rw [hs]
  exact ⟨rfl, filter_keeps_owner st.slots k n h⟩

/-- **Every history** (any sequence of queries and of futures started, polled, answered and dropped on a fresh cache): at
    most one `get_candidates` request per package is in flight - every other live future for the package waits for it. -/
theorem one_request_per_package_in_flight (U : Universe) (peek : Bool) (ops : List Op) (n : Nat) :
    owners n (run U peek {} ops).1.slots ≤ 1 :=
  run_ownerUnique U peek ops {} init_ownerUnique n

/-- the hypotheses of the two theorems are met by a state with one request in flight and one future waiting for it -/
example : let st : St := { slots := [(0, .owner 5 false), (1, .waiter 5 false)] }
    st.marker 5 = true ∧ st.slots.lookup 1 = some (.waiter 5 false) ∧ ∃ p ∈ st.slots, p.1 ≠ 1 ∧ p.2.isOwnerOf 5 = true := by
  refine ⟨by decide, by decide, (0, .owner 5 false), by simp, by decide, by decide⟩

end Resolvo.C20
