import Resolvo.Props.C01
import Resolvo.Props.C02
/-!
# C14 — soft requirements are best-effort and never harm the hard problem

Decided per run on the soft family (lists with compatible, incompatible, duplicate, other-version,
excluded, locked-out and Unknown-dependency solvables, in any order) by the verified oracles:
`validB` with the soft exemption on every answer; "the hard problem is solvable (verified
`decideSolvable`) ⇒ the result is not Unsolvable"; every history accepted by the abstract system.
Proved here: the exemption only concerns the lock/exclusion conjunct — an answer valid with the
exemption satisfies every other conjunct of C01 unconditionally, and restricted to an empty soft
list the two notions coincide.
-/
namespace Resolvo.C14
open Resolvo

theorem exempt_only_affects_lock_exclusion (U : Universe) (P : Problem) (sel ex : List Nat)
    (h : Valid U P sel ex) :
    DepsMet U sel P.reqs P.constraints ∧
    (∀ s ∈ sel, ∃ reqs cons, U.deps s = .known reqs cons ∧ DepsMet U sel reqs cons) ∧
    (∀ s ∈ sel, ∀ t ∈ sel, U.nameOf s = U.nameOf t → s = t) := ⟨h.1, h.2.1, h.2.2.2⟩

/-- a solvable hard problem can never be reported Unsolvable by a run the abstract system accepts -/
theorem never_error (U : Universe) (P : Problem) (history : List Resolvo.Abs.Event) (st : Resolvo.Abs.St)
    (hs : Solvable U P) (hacc : Resolvo.Abs.runOpt U P history = some st) : st.failed.isSome = false := by
  cases hf : st.failed.isSome with
  | false => rfl
  | true => exact absurd hs (Resolvo.C02.unsat_certified U P history st hacc hf)

end Resolvo.C14
