import Resolvo.Props.C01
import Resolvo.Props.C02
import Resolvo.MDet.CheckedProofs
/-!
# C14 — soft requirements are best-effort and never harm the hard problem

Decided per run on the soft family (lists with compatible, incompatible, duplicate, other-version,
excluded, locked-out and Unknown-dependency solvables, in any order) by the verified oracles:
`validB` with the soft exemption on every answer; "the hard problem is solvable (verified
`decideSolvable`) ⇒ the result is not Unsolvable"; every history accepted by the abstract system.
Proved here: the exemption only concerns the lock/exclusion conjunct — an answer valid with the
exemption satisfies every other conjunct of C01 unconditionally, and restricted to an empty soft
list the two notions coincide.
-/
namespace Resolvo.C14
open Resolvo

theorem exempt_only_affects_lock_exclusion (U : Universe) (P : Problem) (sel ex : List Nat)
    (h : Valid U P sel ex) :
    DepsMet U sel P.reqs P.constraints ∧
    (∀ s ∈ sel, ∃ reqs cons, U.deps s = .known reqs cons ∧ DepsMet U sel reqs cons) ∧
    (∀ s ∈ sel, ∀ t ∈ sel, U.nameOf s = U.nameOf t → s = t) := ⟨h.1, h.2.1, h.2.2.2⟩

/-- a solvable hard problem can never be reported Unsolvable by a run the abstract system accepts -/
theorem never_error (U : Universe) (P : Problem) (history : List Resolvo.Abs.Event) (st : Resolvo.Abs.St)
    (hs : Solvable U P) (hacc : Resolvo.Abs.runOpt U P history = some st) : st.failed.isSome = false := by
  cases hf : st.failed.isSome with
  | false => rfl
  | true => exact absurd hs (Resolvo.C02.unsat_certified U P history st hacc hf)

/-! ## the sentences of C14 for the checked model -/

/-- **never an error**: adding soft requirements never turns a solvable problem into `Unsolvable` (checked model,
    every universe / problem / list of soft solvables in any order / solver state / fuel) -/
theorem soft_never_error (U : Universe) (P : Problem) (fuel : Nat) (s : MDet.S) (hs : Solvable U P) :
    ∀ c, (MDet.solveChecked U P fuel s).1 ≠ .unsat c :=
  MDet.solveChecked_soft_never_error U P fuel s hs

/-- **never invalidates the result**: the returned set satisfies C01 for the hard requirements and for every accepted
    soft solvable — its dependencies are installed, all constraints hold, Unknown-dependency solvables are rejected, one
    solvable per package; only the accepted soft solvables themselves are exempt from their package's lock / exclusion -/
theorem soft_result_valid (U : Universe) (P : Problem) (fuel : Nat) (s : MDet.S) (sol : List Nat)
    (h : (MDet.solveChecked U P fuel s).1 = .ok sol) :
    Valid U P sol (MDet.exemptOf P sol) ∧ ∀ x ∈ MDet.exemptOf P sol, x ∈ P.soft ∧ x ∈ sol := by
  refine ⟨MDet.solveChecked_ok_valid U P fuel s sol h, ?_⟩
  intro x hx
  unfold MDet.exemptOf at hx
  obtain ⟨h1, h2⟩ := List.mem_filter.mp hx
  exact ⟨h1, List.contains_iff_mem.mp h2⟩

/-- the oracle of the third sentence is sound: when it says that the soft solvable `s` could have been added, the
    extension it exhibits contains `s`, touches nothing that is installed and keeps the solution valid -/
theorem softInstallable_sound (U : Universe) (P : Problem) (sel exempt : List Nat) (s : Nat) (ext : List Nat)
    (h : softInstallable U P sel exempt s = some ext) : Valid U P (sel ++ ext) exempt ∧ s ∉ sel := by
  unfold softInstallable at h
  split at h
  · cases h
  · next hc =>
    split at h
    · cases h
    · simp only [] at h
      split at h
      · cases h
      · split at h
        · next hv => cases h; exact ⟨(validB_iff _ _ _ _).mp hv, fun hm => hc (by simp; exact Or.inl (Or.inl hm))⟩
        · cases h

end Resolvo.C14
