import Resolvo.Data.CowVector
import Resolvo.ModelFacts
/-!
# C17 — the C++ binding computes what the Rust API computes, memory-safely

What is proved here is small and stated as such:
* `layout_agree`: Rust's `compute_inner_layout::<T>(cap)` (`Layout::new::<VectorHeader>().extend(Layout::array::<T>(cap))`)
  and C++'s `sizeof(Header) + cap * sizeof(T)`, `alignof(Header)` denote the same size, alignment and
  data offset whenever `alignof(T)` divides the header size and does not exceed the header
  alignment (the C++ `static_assert` plus the three-word header) — for every capacity;
* `ModelFacts.vector_header_agrees`: the Rust and C++ header structs list the same fields in the same
  order (regenerated from both sources on every run);
* `frame`: at the spec level an operation changes only the handles it names.
The refinement "refcounted heap model ⊑ value-semantics spec" (`Data/CowVector.lean`) is **checked on
every generated sequence** by the driver (`heap'.wf && heap'.abs == spec'`) but not yet proved.
Everything about real memory (use-after-free, leaks, UB, ABI) is explored with
ASan/UBSan/LeakSanitizer on the real headers; three genuine defects were found and repaired.
-/
namespace Resolvo.C17
open Resolvo.Cow

/-- `Layout::extend`: offset of the second part = first size rounded up to the second alignment -/
def roundUp (x a : Nat) : Nat := (x + a - 1) / a * a

/-- Rust: (size, align, data offset) of `VectorInner<T>` with `cap` elements -/
def layoutRust (hdrSize hdrAlign sizeT alignT cap : Nat) : Nat × Nat × Nat :=
  (roundUp hdrSize alignT + cap * sizeT, Nat.max hdrAlign alignT, roundUp hdrSize alignT)

/-- C++: `sizeof(Header) + cap*sizeof(T)`, `alignof(Header)`, data at `inner + 1` -/
def layoutCpp (hdrSize hdrAlign sizeT cap : Nat) : Nat × Nat × Nat := (hdrSize + cap * sizeT, hdrAlign, hdrSize)

theorem roundUp_of_dvd (x a : Nat) (ha : 0 < a) (h : a ∣ x) : roundUp x a = x := by
  obtain ⟨k, rfl⟩ := h
  unfold roundUp
  have : (a * k + a - 1) / a = k := by
    have h1 : a * k + a - 1 = a * k + (a - 1) := by omega
    rw [h1, Nat.mul_add_div ha, Nat.div_eq_of_lt (by omega)]
    omega
  rw [this, Nat.mul_comm]

theorem layout_agree (hdrSize hdrAlign sizeT alignT cap : Nat) (ha : 0 < alignT)
    (hdvd : alignT ∣ hdrSize) (hle : alignT ≤ hdrAlign) :
    layoutRust hdrSize hdrAlign sizeT alignT cap = layoutCpp hdrSize hdrAlign sizeT cap := by
  unfold layoutRust layoutCpp
  rw [roundUp_of_dvd hdrSize alignT ha hdvd]
  have : Nat.max hdrAlign alignT = hdrAlign := Nat.max_eq_left hle
  rw [this]

/-- the concrete header: three machine words (24 bytes, alignment 8) and every admissible element alignment -/
example : ∀ a ∈ [1, 2, 4, 8], a ∣ 24 ∧ a ≤ 8 := by decide

/-- spec level: an operation leaves every handle it does not name untouched -/
theorem frame (s : Spec) (op : Op) (k : Nat) (hk : match op with
    | .init h _ | .push h _ | .clear h | .set h _ _ => k ≠ h
    | .copy h _ | .assign h _ => k ≠ h
    | .move h g => k ≠ h ∧ k ≠ g) : (specStep s op).get k = s.get k := by
  unfold Spec.get
  cases op <;> simp only [specStep, Spec.put] at * <;>
    first
    | (rw [List.getD_eq_getElem?_getD, List.getD_eq_getElem?_getD, List.getElem?_set_ne (Ne.symm hk)])
    | (split
       · rfl
       · rw [List.getD_eq_getElem?_getD, List.getD_eq_getElem?_getD, List.getElem?_set_ne (Ne.symm hk.2),
           List.getElem?_set_ne (Ne.symm hk.1)])

end Resolvo.C17
