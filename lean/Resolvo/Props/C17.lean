import Resolvo.Data.CowVector
import Resolvo.Data.CowVectorProofs
import Resolvo.ModelFacts
/-!
# C17 — the C++ binding computes what the Rust API computes, memory-safely

What is proved here is small and stated as such:
* `layout_agree`: Rust's `compute_inner_layout::<T>(cap)` (`Layout::new::<VectorHeader>().extend(Layout::array::<T>(cap))`)
  and C++'s `sizeof(Header) + cap * sizeof(T)`, `alignof(Header)` denote the same size, alignment and
  data offset whenever `alignof(T)` divides the header size and does not exceed the header
  alignment (the C++ `static_assert` plus the three-word header) — for every capacity;
* `ModelFacts.vector_header_agrees`: the Rust and C++ header structs list the same fields in the same
  order (regenerated from both sources on every run);
* `frame`: at the spec level an operation changes only the handles it names.
* `cow_refines`: the refcounted heap model of the header's algorithms (`Data/CowVector.lean`: share on copy,
  `detach` before a write, release-then-acquire copy assignment, swap on move, the uncounted static empty
  block) **refines the value-semantics spec for every sequence of operations on existing handles**, keeps
  the reference-count invariant, never touches a freed block and never leaks one (`Data/CowVectorProofs.lean`,
  by composing the primitive steps under an invariant with ghost references for temporaries). The driver
  additionally evaluates `wf`/`abs` on every generated sequence (a test of the same statement).
Everything about real memory (use-after-free, leaks, UB, ABI) is explored with
ASan/UBSan/LeakSanitizer on the real headers; three genuine defects were found and repaired.
-/
namespace Resolvo.C17
open Resolvo.Cow

/-- `Layout::extend`: offset of the second part = first size rounded up to the second alignment -/
def roundUp (x a : Nat) : Nat := (x + a - 1) / a * a

/-- Rust: (size, align, data offset) of `VectorInner<T>` with `cap` elements -/
def layoutRust (hdrSize hdrAlign sizeT alignT cap : Nat) : Nat × Nat × Nat :=
  (roundUp hdrSize alignT + cap * sizeT, Nat.max hdrAlign alignT, roundUp hdrSize alignT)

/-- C++: `sizeof(Header) + cap*sizeof(T)`, `alignof(Header)`, data at `inner + 1` -/
def layoutCpp (hdrSize hdrAlign sizeT cap : Nat) : Nat × Nat × Nat := (hdrSize + cap * sizeT, hdrAlign, hdrSize)

theorem roundUp_of_dvd (x a : Nat) (ha : 0 < a) (h : a ∣ x) : roundUp x a = x := by
  obtain ⟨k, rfl⟩ := h
  unfold roundUp
  have : (a * k + a - 1) / a = k := by
    have h1 : a * k + a - 1 = a * k + (a - 1) := by omega
    rw [h1, Nat.mul_add_div ha, Nat.div_eq_of_lt (by omega)]
    omega
  rw [this, Nat.mul_comm]

theorem layout_agree (hdrSize hdrAlign sizeT alignT cap : Nat) (ha : 0 < alignT)
    (hdvd : alignT ∣ hdrSize) (hle : alignT ≤ hdrAlign) :
    layoutRust hdrSize hdrAlign sizeT alignT cap = layoutCpp hdrSize hdrAlign sizeT cap := by
  unfold layoutRust layoutCpp
  rw [roundUp_of_dvd hdrSize alignT ha hdvd]
  have : Nat.max hdrAlign alignT = hdrAlign := Nat.max_eq_left hle
  rw [this]

/-- the concrete header: three machine words (24 bytes, alignment 8) and every admissible element alignment -/
example : ∀ a ∈ [1, 2, 4, 8], a ∣ 24 ∧ a ≤ 8 := by decide

/-- spec level: an operation leaves every handle it does not name untouched -/
theorem frame (s : Spec) (op : Op) (k : Nat) (hk : match op with
    | .init h _ | .push h _ | .clear h | .set h _ _ => k ≠ h
    | .copy h _ | .assign h _ => k ≠ h
    | .move h g => k ≠ h ∧ k ≠ g) : (specStep s op).get k = s.get k := by
  unfold Spec.get
  cases op <;> simp only [specStep, Spec.put] at * <;>
    first
    | (rw [List.getD_eq_getElem?_getD, List.getD_eq_getElem?_getD, List.getElem?_set_ne (Ne.symm hk)])
    | (split
       · rfl
       · rw [List.getD_eq_getElem?_getD, List.getD_eq_getElem?_getD, List.getElem?_set_ne (Ne.symm hk.2),
           List.getElem?_set_ne (Ne.symm hk.1)])

/-- the refcounted heap model refines the value-semantics spec: for every number of handles and every
    sequence of operations that name existing handles, the heap reached from the initial heap satisfies the
    copy-on-write invariant, denotes exactly the spec's contents, has touched no freed block, has no handle
    to a freed block and has leaked nothing -/
theorem cow_refines (n : Nat) (ops : List Op) (hv : ∀ op ∈ ops, op.valid n) :
    let hp := ops.foldl heapStep (Heap.init n)
    Inv hp ∧ hp.abs = ops.foldl specStep (List.replicate n []) ∧
      hp.uaf = false ∧ (∀ h, h < hp.handles.length → (hp.block (hp.blockOf h)).freed = false) ∧ hp.leaked = [] := by
  have hlen : (Heap.init n).handles.length = n := by simp [Heap.init]
  have r := run_refines ops (Heap.init n) (inv_init n) (fun op ho => by rw [hlen]; exact hv op ho)
  have s := inv_safe _ r.1
  exact ⟨r.1, by rw [r.2, abs_init], s.1, s.2.1, s.2.2⟩

/-- non-vacuity: a sequence with sharing, self-assignment, push of an own element's value, a write through a
    shared handle and a clear meets the hypothesis, and the two levels compute the same contents -/
example : (∀ op ∈ [Op.init 0 [1, 2], .copy 1 0, .assign 1 1, .push 0 1, .set 1 0 9, .move 2 1, .clear 0], op.valid 3) ∧
    ([Op.init 0 [1, 2], .copy 1 0, .assign 1 1, .push 0 1, .set 1 0 9, .move 2 1, .clear 0].foldl heapStep (Heap.init 3)).abs
      = [[], [], [9, 2]] := by decide

end Resolvo.C17
