import Resolvo.Enc.AtMostOneProofs
/-!
# C15 — one solvable per package, for any number of candidates and any discovery order

Tracker-level statements (part (a)/(c) of DESIGN §6 C15). `vs` is the sequence of
`add` calls in *any* order, with arbitrary repetitions — i.e. any order and
grouping in which version sets reveal a package's candidates. No bound on its
length. `first` is the value of the variable counter when the tracker is
created; helper variables are drawn from it.
-/
namespace Resolvo.C15
open Resolvo.Amo

/-- The clauses the tracker has emitted after the calls `add v` for `v` in `vs`. -/
def clauses (first : Nat) (vs : List Nat) : List FClause := (addAll { next := first } vs).out

/-- **Soundness.** Whatever the helper variables are set to, an assignment that satisfies
    every emitted clause makes at most one of the registered candidates true. -/
theorem amo_sound (first : Nat) (vs : List Nat) (σ : Nat → Bool)
    (hsat : ∀ c ∈ clauses first vs, sat σ c = true)
    (x y : Nat) (hx : x ∈ vs) (hy : y ∈ vs) (sx : σ x = true) (sy : σ y = true) : x = y := by
  have hi := addAll_inv _ vs (inv_init first)
  obtain ⟨i, hi'⟩ := List.getElem?_of_mem (mem_vars_addAll { next := first } vs x hx)
  obtain ⟨j, hj'⟩ := List.getElem?_of_mem (mem_vars_addAll { next := first } vs y hy)
  have := inv_sound _ hi σ hsat i j x y hi' hj' sx sy
  subst this
  rw [hi'] at hj'; exact Option.some.inj hj'

/-- **Completeness.** If the candidates' variables are distinct from the helper variables
    (in the solver both come from one counter), then for each registered candidate `x` there
    is a setting of the helper variables — all other variables as in `base` — under which all
    emitted clauses hold, `x` is true and every other registered candidate is false. -/
theorem amo_complete_one (first : Nat) (vs : List Nat) (hlt : ∀ v ∈ vs, v < first)
    (base : Nat → Bool) (x : Nat) (hx : x ∈ vs) :
    ∃ σ, (∀ c ∈ clauses first vs, sat σ c = true) ∧ σ x = true ∧
      (∀ y ∈ vs, y ≠ x → σ y = false) ∧ (∀ v, v < first → v ∉ vs → σ v = base v) := by
  have hi := addAll_inv _ vs (inv_init first)
  have hge := addAll_next_ge { next := first } vs first (Nat.le_refl _) (by intro h hh; simp at hh)
  have hsub : ∀ v ∈ (addAll { next := first } vs).t.vars, v ∈ vs := by
    intro v hv
    rcases vars_addAll_subset _ vs v hv with h | h
    · simp at h
    · exact h
  have hdisj : ∀ h ∈ (addAll { next := first } vs).t.helpers, h ∉ (addAll { next := first } vs).t.vars := by
    intro h hh hv
    have := hlt h (hsub h hv)
    have := hge.2 h hh
    omega
  obtain ⟨i0, hi0⟩ := List.getElem?_of_mem (mem_vars_addAll { next := first } vs x hx)
  obtain ⟨h1, h2, h3⟩ := inv_complete_some _ hi hdisj i0 base
  refine ⟨_, h1, ?_, ?_, ?_⟩
  · rw [h2 i0 x hi0]; simp
  · intro y hy hne
    obtain ⟨j, hj⟩ := List.getElem?_of_mem (mem_vars_addAll { next := first } vs y hy)
    rw [h2 j y hj]
    simp only [decide_eq_false_iff_not]
    intro e; subst e
    rw [hi0] at hj; exact hne (Option.some.inj hj).symm
  · intro v hv hnv
    apply h3
    · intro hm; exact hnv (hsub v hm)
    · intro hm; have := hge.2 v hm; omega

/-- … and a setting under which none of them is true. -/
theorem amo_complete_none (first : Nat) (vs : List Nat) (base : Nat → Bool) :
    ∃ σ, (∀ c ∈ clauses first vs, sat σ c = true) ∧ (∀ y ∈ vs, σ y = false) := by
  have hi := addAll_inv _ vs (inv_init first)
  obtain ⟨σ, h1, h2, _⟩ := inv_complete_none _ hi base
  exact ⟨σ, h1, fun y hy => h2 y (mem_vars_addAll _ vs y hy)⟩

/-- **Stability.** A later `add` never changes the index of an earlier candidate, the bit
    of an earlier helper, or an earlier clause (it only appends). -/
theorem amo_stable (s : St) (v : Nat) :
    (∃ l, (add s v).t.vars = s.t.vars ++ l) ∧ (∃ l, (add s v).t.helpers = s.t.helpers ++ l) ∧
    (∃ l, (add s v).out = s.out ++ l) := add_stable s v

/-- **Threshold arithmetic (c).** When the `while` loop exits, the index the new variable
    receives (`variables.len()`) fits in the helper bits: `len ≤ 2^helpers − 1`, including
    the first step where `(1 << 0) − 1 = 0`. -/
theorem threshold (s : St) :
    (growLoop (s.t.vars.length + 1) s).t.vars.length ≤
      2 ^ (growLoop (s.t.vars.length + 1) s).t.helpers.length - 1 :=
  growLoop_enough _ s (by omega)

/-! Non-vacuity: five candidates revealed as 3, 1, 4, 1, 5, 9 (one repeat): the clause set is
    non-empty, and the hypotheses of the theorems are met (`first = 100`). -/
example : (clauses 100 [3, 1, 4, 1, 5, 9]).length = 15 := by decide
example : ∀ v ∈ [3, 1, 4, 1, 5, 9], v < 100 := by decide

end Resolvo.C15
