import Resolvo.MDet.Checked
import Resolvo.MDet.LogSpec
import Resolvo.MDet.GhostSpec
/-!
# C12 — cancellation is honoured promptly and faithfully

Model level (`MDet`): every uncached `get_candidates` / `get_dependencies` and every propagation
round is preceded by a poll of `should_cancel_with_value`; a poll that returns a value aborts the
solve with exactly that value before any further provider request is logged. Proved here for
the two cache entry points (the poll sites of `cache.rs`); the third site (`propagate`) is by
definition its first action. The exact correspondence compares the model's call log — including
every poll, in order — with the real solver's under cancellation plans drawn from the polls and
provider requests of the uncancelled run (first-only, persistent and transient signals).
-/
namespace Resolvo.C12
open Resolvo Resolvo.MDet

/-- a poll that sees the signal aborts with exactly the provider's value, logging only the poll -/
theorem poll_fires (s : S) (h : fires s = true) :
    pollCancel s = (.error (.cancelled (7000 + s.polls)), { s with polls := s.polls + 1, log := s!"P{s.polls}" :: s.log, glog := .poll s.polls true :: s.glog }) := by
  unfold pollCancel; rw [if_pos h]

/-- a poll that does not see the signal has no effect beyond being logged -/
theorem poll_transparent (s : S) (h : fires s = false) :
    pollCancel s = (.ok (), { s with polls := s.polls + 1, log := s!"p{s.polls}" :: s.log, glog := .poll s.polls false :: s.glog }) := by
  unfold pollCancel; rw [if_neg (by simp [h])]

/-- an uncached dependency request whose poll sees the signal is never issued: the solve aborts
    with the provider's value, only the poll is logged, nothing is fetched -/
theorem no_deps_request_after_signal (U : Universe) (sv : Nat) (s : S) (hun : s.fetchedDeps.contains sv = false)
    (h : fires s = true) :
    getDeps U sv s = (.error (.cancelled (7000 + s.polls)), { s with polls := s.polls + 1, log := s!"P{s.polls}" :: s.log, glog := .poll s.polls true :: s.glog }) := by
  unfold getDeps
  simp only [bind, ExceptT.bind, ExceptT.mk, ExceptT.bindCont, get, getThe, MonadStateOf.get, liftM, monadLift,
    MonadLift.monadLift, ExceptT.lift, StateT.bind, StateT.get, StateT.map, Functor.map, pure, StateT.pure, hun,
    Bool.not_false, if_true, poll_fires s h]

/-- the same for an uncached candidates request -/
theorem no_cands_request_after_signal (U : Universe) (n : Nat) (s : S) (hun : s.fetchedCands.contains n = false)
    (h : fires s = true) :
    getCandidates U n s = (.error (.cancelled (7000 + s.polls)), { s with polls := s.polls + 1, log := s!"P{s.polls}" :: s.log, glog := .poll s.polls true :: s.glog }) := by
  unfold getCandidates
  simp only [bind, ExceptT.bind, ExceptT.mk, ExceptT.bindCont, get, getThe, MonadStateOf.get, liftM, monadLift,
    MonadLift.monadLift, ExceptT.lift, StateT.bind, StateT.get, StateT.map, Functor.map, pure, StateT.pure, hun,
    Bool.not_false, if_true, poll_fires s h]

/-! ## Run level: the whole of `solve`

`S.glog` is the structured twin of the provider call log (the driver checks on every case that it renders to the
call log, which in turn equals the real solver's log entry by entry): `poll k fired` = the k-th call of
`should_cancel_with_value` and whether it returned a value, `call` = a `get_candidates` / `get_dependencies`
request is started, `got` = its answer was obtained. The theorems hold for every universe, problem, fuel and
solver state — any cancellation plan, warm or cold cache, synchronous provider or asynchronous provider under
any completion order (`MDet/LogSpec.lean`: the discipline composes over sequencing, loops and early exits). -/

/-- **Faithful, and nothing afterwards.** If `solve` ends `Cancelled v`, the newest entry of the call log is a poll
    that returned a value, `v` is the value of that very poll, and no other poll of this solve returned one: no
    provider request is started — indeed nothing at all is logged — after cancellation was observed. -/
theorem cancelled_faithful (U : Universe) (P : Problem) (fuel : Nat) (s : S) (v : Nat)
    (h : (solveRun U P fuel s).1 = .stop (.cancelled v)) :
    ∃ k rest, (solveRun U P fuel s).2.glog = .poll k true :: rest ++ s.glog ∧ v = 7000 + k ∧ NoFired rest := by
  obtain ⟨new, hg, _, hc⟩ := solveRun_chunk U P fuel s
  rw [h] at hc
  obtain ⟨k, rest, hnew, hv, hnf⟩ := hc
  exact ⟨k, rest, by rw [hg, hnew], hv, hnf⟩

/-- **Never a solution or a conflict instead.** If any poll of this solve returned a value, the solve ends `Cancelled`. -/
theorem fired_poll_cancels (U : Universe) (P : Problem) (fuel : Nat) (s : S) (new : List GEv)
    (hg : (solveRun U P fuel s).2.glog = new ++ s.glog) (k : Nat) (hk : GEv.poll k true ∈ new) :
    (solveRun U P fuel s).1 = .stop (.cancelled (7000 + k)) := by
  obtain ⟨new', hg', _, hc⟩ := solveRun_chunk U P fuel s
  have hnn : new = new' := by
    have : new ++ s.glog = new' ++ s.glog := by rw [← hg, ← hg']
    exact List.append_cancel_right this
  subst hnn
  cases ho : (solveRun U P fuel s).1 with
  | ok sol => rw [ho] at hc; exact absurd hk (hc k)
  | unsat c => rw [ho] at hc; exact absurd hk (hc k)
  | stop w =>
    rw [ho] at hc
    cases w with
    | panic site => exact absurd hk (hc k)
    | outOfFuel => exact absurd hk (hc k)
    | cancelled v =>
      obtain ⟨k', rest, hnew, hv, hnf⟩ := hc
      rw [hnew] at hk
      rcases List.mem_cons.mp hk with h1 | h1
      · cases h1; rw [hv]
      · exact absurd h1 (hnf k)

/-- **Promptly.** Every provider request a solve starts is directly preceded by a poll of
    `should_cancel_with_value` that returned nothing: there is no request without a fresh look at the signal. -/
theorem every_request_polled (U : Universe) (P : Problem) (fuel : Nat) (s : S) :
    ∃ new, (solveRun U P fuel s).2.glog = new ++ s.glog ∧ CallsPolled new := by
  obtain ⟨new, hg, hp, _⟩ := solveRun_chunk U P fuel s
  exact ⟨new, hg, hp⟩

/-- the same across any history of solves on one solver (C13's quantifier) -/
theorem history_requests_polled (U : Universe) (fuel : Nat) (ps : List Problem) (s : S) :
    ∃ new, (ps.foldl (fun st p => (solveRun U p fuel st).2) s).glog = new ++ s.glog ∧ CallsPolled new := by
  induction ps generalizing s with
  | nil => exact ⟨[], rfl, trivial⟩
  | cons p ps ih =>
    obtain ⟨n1, h1, c1⟩ := every_request_polled U p fuel s
    obtain ⟨n2, h2, c2⟩ := ih (solveRun U p fuel s).2
    refine ⟨n2 ++ n1, ?_, callsPolled_append _ _ c2 c1⟩
    simp only [List.foldl_cons]
    rw [h2, h1, List.append_assoc]

/-- the same in terms of the call log itself (the strings compared with the real solver's log): `Ghost` — the call log
    is the rendering of the structured log — holds for a fresh solver and is maintained by every solve
    (`MDet.history_ghost`), so the newest entry of the call log of a cancelled solve is `P<k>` with `v = 7000 + k` -/
theorem cancelled_faithful_log (U : Universe) (P : Problem) (fuel : Nat) (s : S) (hg : Ghost s) (v : Nat)
    (h : (solveRun U P fuel s).1 = .stop (.cancelled v)) :
    ∃ k rest, (solveRun U P fuel s).2.log = s!"P{k}" :: rest ∧ v = 7000 + k := by
  obtain ⟨k, rest, hgl, hv, _⟩ := cancelled_faithful U P fuel s v h
  have hg' := solveRun_ghost U P fuel s hg
  unfold Ghost at hg'
  rw [hgl] at hg'
  exact ⟨k, (rest ++ s.glog).map gevStr, by rw [hg']; rfl, hv⟩

example : Ghost {} := rfl

/-! Non-vacuity of the `Cancelled` branch: every propagation round started while the signal is up ends `Cancelled`
    with the provider's value (so does every uncached request, `no_*_request_after_signal` above); the evidence file
    counts the generated cases that actually ended `Cancelled` with model and implementation in exact agreement. -/
example (level fuel : Nat) (s : S) (h : fires s = true) :
    (runM (propagate level fuel) s).1 = .error (.cancelled (7000 + s.polls)) := by
  unfold propagate
  rw [runM_bind, runM_pollCancel]
  simp [h]

end Resolvo.C12
