import Resolvo.MDet.Checked
/-!
# C12 — cancellation is honoured promptly and faithfully

Model level (`MDet`): every uncached `get_candidates` / `get_dependencies` and every propagation
round is preceded by a poll of `should_cancel_with_value`; a poll that returns a value aborts the
solve with exactly that value before any further provider request is logged. Proved here for
the two cache entry points (the poll sites of `cache.rs`); the third site (`propagate`) is by
definition its first action. The exact correspondence compares the model's call log — including
every poll, in order — with the real solver's under cancellation plans drawn from the polls and
provider requests of the uncancelled run (first-only, persistent and transient signals).
-/
namespace Resolvo.C12
open Resolvo Resolvo.MDet

/-- a poll that sees the signal aborts with exactly the provider's value, logging only the poll -/
theorem poll_fires (s : S) (h : fires s = true) :
    pollCancel s = (.error (.cancelled (7000 + s.polls)), { s with polls := s.polls + 1, log := s!"P{s.polls}" :: s.log, glog := .poll s.polls true :: s.glog }) := by
  unfold pollCancel; rw [if_pos h]

/-- a poll that does not see the signal has no effect beyond being logged -/
theorem poll_transparent (s : S) (h : fires s = false) :
    pollCancel s = (.ok (), { s with polls := s.polls + 1, log := s!"p{s.polls}" :: s.log, glog := .poll s.polls false :: s.glog }) := by
  unfold pollCancel; rw [if_neg (by simp [h])]

/-- an uncached dependency request whose poll sees the signal is never issued: the solve aborts
    with the provider's value, only the poll is logged, nothing is fetched -/
theorem no_deps_request_after_signal (U : Universe) (sv : Nat) (s : S) (hun : s.fetchedDeps.contains sv = false)
    (h : fires s = true) :
    getDeps U sv s = (.error (.cancelled (7000 + s.polls)), { s with polls := s.polls + 1, log := s!"P{s.polls}" :: s.log, glog := .poll s.polls true :: s.glog }) := by
  unfold getDeps
  simp only [bind, ExceptT.bind, ExceptT.mk, ExceptT.bindCont, get, getThe, MonadStateOf.get, liftM, monadLift,
    MonadLift.monadLift, ExceptT.lift, StateT.bind, StateT.get, StateT.map, Functor.map, pure, StateT.pure, hun,
    Bool.not_false, if_true, poll_fires s h]

/-- the same for an uncached candidates request -/
theorem no_cands_request_after_signal (U : Universe) (n : Nat) (s : S) (hun : s.fetchedCands.contains n = false)
    (h : fires s = true) :
    getCandidates U n s = (.error (.cancelled (7000 + s.polls)), { s with polls := s.polls + 1, log := s!"P{s.polls}" :: s.log, glog := .poll s.polls true :: s.glog }) := by
  unfold getCandidates
  simp only [bind, ExceptT.bind, ExceptT.mk, ExceptT.bindCont, get, getThe, MonadStateOf.get, liftM, monadLift,
    MonadLift.monadLift, ExceptT.lift, StateT.bind, StateT.get, StateT.map, Functor.map, pure, StateT.pure, hun,
    Bool.not_false, if_true, poll_fires s h]

end Resolvo.C12
