import Resolvo.Data.ArenaProofs
/-!
# C18 — Pool interning is stable: equal values share ids and references stay valid

Statements about the model of `Arena` / `Pool` (`Data/Arena.lean`), for every interleaving of
`intern_*` / `resolve_*` / `lookup` calls of any length and every positive chunk size.
An element's *address* in the model is `(id / chunkSize, id % chunkSize)`; that two equal model
addresses mean the same machine address relies on `Vec::with_capacity(CHUNK)` not reallocating
below capacity (`chunk_le_capacity` shows the capacity is never exceeded).
-/
namespace Resolvo.C18
open Resolvo.Arena Resolvo.Pool

section Arena
variable {α : Type}

/-- (b) ids are dense: the k-th `alloc` returns k -/
theorem alloc_dense (a : A α) (x : α) : (alloc a x).2 = a.len ∧ (alloc a x).1.len = a.len + 1 := ⟨rfl, rfl⟩

/-- (c) address stability: a later `alloc` changes no existing address and no stored value -/
theorem addr_stable (a : A α) (hi : Inv a) (x : α) (id : Nat) (v : α)
    (h : at? a (id / a.chunkSize) (id % a.chunkSize) = some v) (hid : id < a.len) :
    at? (alloc a x).1 (id / a.chunkSize) (id % a.chunkSize) = some v := by
  rw [at?_alloc a hi]
  have : ¬ (id / a.chunkSize = a.len / a.chunkSize ∧ id % a.chunkSize = a.len % a.chunkSize) := by
    intro hc; have := div_mod_inj hc.1 hc.2; omega
  simp [this, h]

theorem resolve_stable (a : A α) (hi : Inv a) (x : α) (id : Nat) (v : α) (h : get? a id = some v) :
    get? (alloc a x).1 id = some v := by
  rw [get?_alloc a hi]
  have : id ≠ a.len := by
    intro e; subst e; simp [get?] at h
  simp [this, h]

theorem resolve_new (a : A α) (hi : Inv a) (x : α) : get? (alloc a x).1 (alloc a x).2 = some x := by
  rw [get?_alloc a hi]; simp [alloc_id]

theorem capacity_never_exceeded (a : A α) (hi : Inv a) (k : Nat) (ch : List α) (h : a.chunks[k]? = some ch) :
    ch.length ≤ a.chunkSize := chunk_le_capacity a hi k ch h

/-- the invariant holds in every reachable arena -/
theorem reachable_inv (c n : Nat) (hc : 0 < c) (xs : List α) :
    Inv (xs.foldl (fun a x => (alloc a x).1) (withCapacity c n : A α)) := by
  have : ∀ (a : A α), Inv a → Inv (xs.foldl (fun a x => (alloc a x).1) a) := by
    induction xs with
    | nil => intro a h; exact h
    | cons x xs ih => intro a h; exact ih _ (inv_alloc a h x)
  exact this _ (inv_withCapacity c n hc)
end Arena

section Table
variable {α : Type} [BEq α] [LawfulBEq α]

/-- the interning table represents a partial bijection between values and dense ids -/
structure TInv (t : Tbl α) : Prop where
  arena : Inv t.arena
  iff : ∀ x id, t.ids.lookup x = some id ↔ get? t.arena id = some x

theorem tinv_new (c : Nat) (hc : 0 < c) : TInv (Tbl.new c : Tbl α) := by
  refine ⟨inv_withCapacity c 1 hc, ?_⟩
  intro x id
  simp [Tbl.new, get?, withCapacity]

theorem get?_lt (a : A α) (id : Nat) (v : α) (h : get? a id = some v) : id < a.len := by
  unfold get? at h
  split at h
  · assumption
  · cases h

theorem tinv_intern (t : Tbl α) (hi : TInv t) (x : α) : TInv (t.intern x).1 := by
  unfold Tbl.intern
  cases hl : t.ids.lookup x with
  | some id => exact hi
  | none =>
    refine ⟨inv_alloc t.arena hi.arena x, ?_⟩
    intro y id
    simp only [List.lookup_cons]
    rw [get?_alloc t.arena hi.arena]
    by_cases hyx : (y == x) = true
    · have e : y = x := eq_of_beq hyx
      subst e
      simp only [beq_self_eq_true]
      constructor
      · intro h; cases h; simp [alloc_id]
      · intro h
        by_cases hid : id = t.arena.len
        · subst hid; rfl
        · simp only [hid, if_false] at h
          have := (hi.iff y id).mpr h
          rw [hl] at this; cases this
    · have hyx' : (y == x) = false := by simpa using hyx
      simp only [hyx']
      rw [hi.iff y id]
      by_cases hid : id = t.arena.len
      · subst hid
        simp only [if_true]
        constructor
        · intro h; have := get?_lt _ _ _ h; omega
        · intro h; cases h; simp at hyx
      · simp [hid]

/-- (a) interning the same value twice returns the same id (and changes nothing the second time) -/
theorem intern_twice (t : Tbl α) (hi : TInv t) (x : α) :
    ((t.intern x).1.intern x) = ((t.intern x).1, (t.intern x).2) := by
  have h2 := tinv_intern t hi x
  have hres : (t.intern x).1.ids.lookup x = some (t.intern x).2 := by
    unfold Tbl.intern
    cases hl : t.ids.lookup x with
    | some id => simp [hl]
    | none => simp [alloc_id]
  generalize (t.intern x).1 = t1 at hres ⊢
  generalize (t.intern x).2 = id1 at hres ⊢
  unfold Tbl.intern
  rw [hres]

/-- (a) `resolve (intern v) = v` -/
theorem resolve_intern (t : Tbl α) (hi : TInv t) (x : α) :
    (t.intern x).1.resolve (t.intern x).2 = some x := by
  have h2 := tinv_intern t hi x
  have hres : (t.intern x).1.ids.lookup x = some (t.intern x).2 := by
    unfold Tbl.intern
    cases hl : t.ids.lookup x with
    | some id => simp [hl]
    | none => simp [alloc_id]
  exact (h2.iff x _).mp hres

/-- (a) different values never share an id -/
theorem ids_injective (t : Tbl α) (hi : TInv t) (x y : α) (id : Nat)
    (hx : t.lookup x = some id) (hy : t.lookup y = some id) : x = y := by
  have h1 := (hi.iff x id).mp hx
  have h2 := (hi.iff y id).mp hy
  rw [h1] at h2; exact Option.some.inj h2

/-- (d) `lookup` agrees with `intern` -/
theorem lookup_after_intern (t : Tbl α) (x : α) : (t.intern x).1.lookup x = some (t.intern x).2 := by
  unfold Tbl.intern Tbl.lookup
  cases hl : t.ids.lookup x with
  | some id => simp [hl]
  | none => simp [alloc_id]

/-- earlier ids keep resolving to the same value after any later interning -/
theorem table_resolve_stable (t : Tbl α) (hi : TInv t) (x : α) (id : Nat) (v : α)
    (h : t.resolve id = some v) : (t.intern x).1.resolve id = some v := by
  unfold Tbl.intern Tbl.resolve at *
  cases hl : t.ids.lookup x with
  | some id' => exact h
  | none => exact resolve_stable t.arena hi.arena x id v h

end Table

/-! Non-vacuity: interning across a chunk boundary (chunk size 2). -/
example : ((((Tbl.new 2 : Tbl Nat).intern 10).1.intern 20).1.intern 30).2 = 2 := by decide
example : ((((Tbl.new 2 : Tbl Nat).intern 10).1.intern 20).1.intern 10).2 = 0 := by decide

end Resolvo.C18
