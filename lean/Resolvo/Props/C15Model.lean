import Resolvo.Props.C15
import Resolvo.MDet.CheckedProofs
/-! C15 (b) lifted to the checked model of `solve`. -/
namespace Resolvo.C15
open Resolvo Resolvo.MDet

/-- (b) spec level: a problem whose requirements force two different candidates of one package has
    no valid selection at all … -/
theorem pair_not_valid (U : Universe) (P : Problem) (vi vj ci cj : Nat) (sel ex : List Nat)
    (hi : Req.single vi ∈ P.reqs) (hj : Req.single vj ∈ P.reqs)
    (hci : ∀ c ∈ U.candsOf vi, c = ci) (hcj : ∀ c ∈ U.candsOf vj, c = cj)
    (hname : U.nameOf ci = U.nameOf cj) (hne : ci ≠ cj) : ¬ Valid U P sel ex := by
  intro hv
  obtain ⟨c1, hc1, hs1⟩ := hv.1.1 _ hi
  obtain ⟨c2, hc2, hs2⟩ := hv.1.1 _ hj
  have e1 : c1 = ci := hci c1 (by simpa [Universe.reqCands, Universe.reqVersionSets] using hc1)
  have e2 : c2 = cj := hcj c2 (by simpa [Universe.reqCands, Universe.reqVersionSets] using hc2)
  subst e1; subst e2
  exact hne (hv.2.2.2 c1 hs1 c2 hs2 hname)


/-- … so the checked model never answers such a problem with a solution, whatever the number of
    candidates, the order and grouping in which they were revealed, the cache state or the fuel. -/
theorem pair_never_ok (U : Universe) (P : Problem) (fuel : Nat) (s : S) (vi vj ci cj : Nat)
    (hi : Req.single vi ∈ P.reqs) (hj : Req.single vj ∈ P.reqs)
    (hci : ∀ c ∈ U.candsOf vi, c = ci) (hcj : ∀ c ∈ U.candsOf vj, c = cj)
    (hname : U.nameOf ci = U.nameOf cj) (hne : ci ≠ cj) :
    ∀ sol, (solveChecked U P fuel s).1 ≠ .ok sol := by
  intro sol h
  exact pair_not_valid U P vi vj ci cj sol _ hi hj hci hcj hname hne (solveChecked_ok_valid U P fuel s sol h)

/-- and when exactly one candidate is required and a valid selection exists, it never answers Unsolvable -/
theorem single_never_unsat (U : Universe) (P : Problem) (fuel : Nat) (s : S) (hs : Solvable U P) :
    ∀ c, (solveChecked U P fuel s).1 ≠ .unsat c := solveChecked_soft_never_error U P fuel s hs

end Resolvo.C15
