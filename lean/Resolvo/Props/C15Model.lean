import Resolvo.Props.C15
import Resolvo.MDet.CheckedProofs
import Resolvo.MDet.TruthSpec
/-! C15 (b) lifted to the checked model of `solve`. -/
namespace Resolvo.C15
open Resolvo Resolvo.MDet

/-- (b) spec level: a problem whose requirements force two different candidates of one package has
    no valid selection at all … -/
theorem pair_not_valid (U : Universe) (P : Problem) (vi vj ci cj : Nat) (sel ex : List Nat)
    (hi : Req.single vi ∈ P.reqs) (hj : Req.single vj ∈ P.reqs)
    (hci : ∀ c ∈ U.candsOf vi, c = ci) (hcj : ∀ c ∈ U.candsOf vj, c = cj)
    (hname : U.nameOf ci = U.nameOf cj) (hne : ci ≠ cj) : ¬ Valid U P sel ex := by
  intro hv
  obtain ⟨c1, hc1, hs1⟩ := hv.1.1 _ hi
  obtain ⟨c2, hc2, hs2⟩ := hv.1.1 _ hj
  have e1 : c1 = ci := hci c1 (by simpa [Universe.reqCands, Universe.reqVersionSets] using hc1)
  have e2 : c2 = cj := hcj c2 (by simpa [Universe.reqCands, Universe.reqVersionSets] using hc2)
  subst e1; subst e2
  exact hne (hv.2.2.2 c1 hs1 c2 hs2 hname)


/-- … so the checked model never answers such a problem with a solution, whatever the number of
    candidates, the order and grouping in which they were revealed, the cache state or the fuel. -/
theorem pair_never_ok (U : Universe) (P : Problem) (fuel : Nat) (s : S) (vi vj ci cj : Nat)
    (hi : Req.single vi ∈ P.reqs) (hj : Req.single vj ∈ P.reqs)
    (hci : ∀ c ∈ U.candsOf vi, c = ci) (hcj : ∀ c ∈ U.candsOf vj, c = cj)
    (hname : U.nameOf ci = U.nameOf cj) (hne : ci ≠ cj) :
    ∀ sol, (solveChecked U P fuel s).1 ≠ .ok sol := by
  intro sol h
  exact pair_not_valid U P vi vj ci cj sol _ hi hj hci hcj hname hne (solveChecked_ok_valid U P fuel s sol h)

/-- and when exactly one candidate is required and a valid selection exists, it never answers Unsolvable -/
theorem single_never_unsat (U : Universe) (P : Problem) (fuel : Nat) (s : S) (hs : Solvable U P) :
    ∀ c, (solveChecked U P fuel s).1 ≠ .unsat c := solveChecked_soft_never_error U P fuel s hs

/-! ### The exact model applies the at-most-one encoding to the right variables

The encoding proved above (`amo_sound`, `amo_complete_*`) constrains *variables*; these three facts, for every run of the
exact model of `Solver::solve`, say the variables are the right ones: a solvable has one variable, every variable an
at-most-one tracker holds stands for a solvable of that tracker's package, and every forbid clause is about a solvable of
the package it names. -/

/-- one variable per solvable: two variables of the model never stand for the same solvable -/
theorem solvable_variable_unique (U : Universe) (hU : WFU U) (P : Problem) (fuel : Nat) (s0 : S) (v v' x : Nat)
    (h1 : Abs.oSolv (solveRun U P fuel s0).2.origins v = some x) (h2 : Abs.oSolv (solveRun U P fuel s0).2.origins v' = some x) :
    v = v' := by
  have hi := solveRun_tinv U hU P fuel s0
  have key : ∀ w, Abs.oSolv (solveRun U P fuel s0).2.origins w = some x →
      (solveRun U P fuel s0).2.solvVar.lookup x = some w := by
    intro w hw
    apply hi.extra.inj
    unfold Abs.oSolv at hw
    split at hw
    · next y heq => cases hw; exact heq
    · cases hw
  have a := key v h1
  rw [key v' h2] at a
  exact (Option.some.inj a).symm

/-- every variable an at-most-one tracker holds stands for a solvable of that tracker's package -/
theorem tracker_vars_of_package (U : Universe) (hU : WFU U) (P : Problem) (fuel : Nat) (s0 : S) (name : Nat) (tr : Amo.Tracker)
    (h : (solveRun U P fuel s0).2.trackers.lookup name = some tr) :
    ∀ x ∈ tr.vars, ∃ sx, Abs.oSolv (solveRun U P fuel s0).2.origins x = some sx ∧ U.nameOf sx = name :=
  (solveRun_tinv U hU P fuel s0).trk name tr h

/-- every forbid clause of the model is about a solvable of the package it names -/
theorem forbid_clause_of_package (U : Universe) (hU : WFU U) (P : Problem) (fuel : Nat) (s0 : S) (c : MClause)
    (hc : c ∈ (solveRun U P fuel s0).2.clauses.toList) (a h n : Nat) (pos : Bool) (hk : c.kind = .forbid a h pos n) :
    ∃ sx, Abs.oSolv (solveRun U P fuel s0).2.origins a = some sx ∧ U.nameOf sx = n := by
  have := (solveRun_tinv U hU P fuel s0).kinds c hc
  rw [hk] at this
  exact this

end Resolvo.C15
