import Resolvo.Oracles
import Resolvo.MDet.Undo
/-!
# C05 — solutions contain no extraneous solvables

`Supported` is the property's statement: reachable from the root requirements (or an accepted
soft requirement) through requirement edges whose satisfying candidate is itself selected.
Proved: every solvable the executable closure `supportClosure` contains is `Supported`
(soundness of the oracle's positive answers).
-/
namespace Resolvo.C05
open Resolvo

inductive Supported (U : Universe) (P : Problem) (sel : List Nat) : Nat → Prop where
  | root (r : Req) (c : Nat) : r ∈ P.reqs → c ∈ U.reqCands r → c ∈ sel → Supported U P sel c
  | soft (x : Nat) : x ∈ P.soft → x ∈ sel → Supported U P sel x
  | dep (s : Nat) (r : Req) (c : Nat) : Supported U P sel s → r ∈ knownReqs U s → c ∈ U.reqCands r →
      c ∈ sel → Supported U P sel c

theorem supportStep_sound (U : Universe) (P : Problem) (sel sup : List Nat)
    (h : ∀ x ∈ sup, Supported U P sel x) : ∀ x ∈ supportStep U sel sup, Supported U P sel x := by
  intro x hx
  unfold supportStep at hx
  rcases List.mem_append.mp hx with h1 | h1
  · exact h x h1
  · rw [List.mem_filter] at h1
    obtain ⟨hxs, hc⟩ := h1
    simp only [Bool.and_eq_true, List.any_eq_true] at hc
    obtain ⟨_, s, hs, r, hr, hcr⟩ := hc
    exact .dep s r x (h s hs) hr (List.contains_iff_mem.mp hcr) hxs

theorem closure_sound (U : Universe) (P : Problem) (sel : List Nat) :
    ∀ x ∈ supportClosure U P sel, Supported U P sel x := by
  unfold supportClosure
  have base : ∀ x ∈ sel.filter (fun c => P.reqs.any (fun r => (U.reqCands r).contains c) || P.soft.contains c),
      Supported U P sel x := by
    intro x hx
    rw [List.mem_filter] at hx
    obtain ⟨hxs, hc⟩ := hx
    rw [Bool.or_eq_true] at hc
    rcases hc with hc | hc
    · obtain ⟨r, hr, hcr⟩ := List.any_eq_true.mp hc
      exact .root r x hr (List.contains_iff_mem.mp hcr) hxs
    · exact .soft x (List.contains_iff_mem.mp hc) hxs
  generalize (List.range sel.length) = rounds
  generalize hsup : sel.filter (fun c => P.reqs.any (fun r => (U.reqCands r).contains c) || P.soft.contains c) = sup at base
  clear hsup
  induction rounds generalizing sup with
  | nil => exact base
  | cons _ rs ih => exact ih _ (supportStep_sound U P sel sup base)

/-- if the oracle accepts, every selected solvable is supported -/
theorem supportedB_sound (U : Universe) (P : Problem) (sel : List Nat) (h : supportedB U P sel = true) :
    ∀ s ∈ sel, Supported U P sel s := by
  intro s hs
  unfold supportedB at h
  exact closure_sound U P sel s (List.contains_iff_mem.mp (List.all_eq_true.mp h s hs))

/-- **`undo_until(level)` drops every assignment above the backjump level** (exact model of
    `decision_tracker.rs:66-91`, every solver state and level, no bound on the stack): when it returns, the decision stack
    is a suffix of the old one — the newest entries are gone, nothing else changed place — and it is empty or its newest
    entry was assigned at a level ≤ `level`; so no decision of an abandoned branch survives a backjump on top of the trail. -/
theorem undo_until_drops_above_level (level : Nat) (s s' : MDet.S)
    (h : MDet.runM (MDet.undoUntil level) s = (.ok (), s')) :
    (∃ pre, s.stack = pre ++ s'.stack) ∧
    (match s'.stack with | [] => True | d :: _ => MDet.levelOf s' d.var ≤ level) :=
  MDet.undoUntil_post level s s' h

end Resolvo.C05
