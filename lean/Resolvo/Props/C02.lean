import Resolvo.Abs.Fail
import Resolvo.Enc.ReferenceProofs
import Resolvo.MDet.EncSound
import Resolvo.MDet.Tracker
import Resolvo.MDet.Undo
/-!
# C02 — Unsolvable is reported only when no solution exists, and vice versa

What is proved here, for every universe, problem and history (no bound on sizes or steps):

* `unsat_certified` — a solver history that the abstract system accepts and that ends in a
  recorded failure proves `¬ Solvable U P`. The checker replays *every* implementation run
  (the `verif-hooks` history) on every check, so each Unsolvable verdict is certified by a
  kernel-checked checker: provenance of each clause, unit-propagation of each implied
  assignment, RUP derivation of each learnt clause from its recorded antecedents.
* `decideSolvable_iff` — the independent decision procedure used as oracle is correct.
* `ok_solvable` — a valid answer witnesses solvability.
* `verdict_invariant` — `Solvable` does not depend on candidate order, ranks, favored
  candidates or hints (so neither does the verdict of any solver satisfying the two above).

Not proved (see DESIGN §6 C02(d)): that the search terminates with a verdict for every input.
-/
namespace Resolvo.C02
open Resolvo Resolvo.Abs

/-- **The encoder never rules out a solution** (exact model of `Solver::solve`, no checker in between; every universe meeting
    the provider contract, every problem, fuel, solver state carried over from earlier solves, synchronous and asynchronous,
    whatever the outcome): every valid selection of the hard problem satisfies — under the assignment it induces on the
    model's variables — every requires, constrains, lock and exclusion clause the model holds after the solve, read the way
    the model's own propagation reads them. An `Unsolvable` verdict can therefore not come from a wrong clause of the
    encoder; what remains between this and `Unsolvable ⇒ ¬ Solvable` for the model itself is the CDCL core (unit
    propagation, learnt clauses, the at-most-one encoding proved in `Enc/AtMostOneProofs.lean`), which the checked model
    covers (`solveChecked_unsat_sound`). -/
theorem encoder_never_excludes_a_solution (U : Universe) (hU : MDet.WFU U) (P : Problem) (fuel : Nat) (s0 : MDet.S)
    (sel : List Nat) (hv : Valid U P.hard sel []) :
    ∀ c ∈ (MDet.solveRun U P fuel s0).2.clauses.toList, MDet.encoded c.kind = true →
      Sat.evalClause (MDet.muS (MDet.solveRun U P fuel s0).2 sel) (MDet.clauseLits (MDet.solveRun U P fuel s0).2 c) = true :=
  MDet.encoder_sound U hU P fuel s0 sel hv

/-- **The same fact in the direction a verdict uses it** (exact model, same quantification): when the requires, constrains,
    lock and exclusion clauses the model holds after a solve cannot all be satisfied by any assignment that makes the root
    variable true, the hard problem has no valid selection — an `Unsolvable` verdict derived from those clauses alone is
    right. (Contrapositive of `encoder_never_excludes_a_solution` with the root variable pinned; it is not vacuous because
    that theorem's hypothesis, a valid selection, is met by every solvable problem.) -/
theorem encoded_clauses_unsat_means_no_solution (U : Universe) (hU : MDet.WFU U) (P : Problem) (fuel : Nat) (s0 : MDet.S)
    (hun : ∀ μ : Nat → Bool, μ 0 = true → ∃ c ∈ (MDet.solveRun U P fuel s0).2.clauses.toList,
      MDet.encoded c.kind = true ∧
        Sat.evalClause μ (MDet.clauseLits (MDet.solveRun U P fuel s0).2 c) = false) :
    ¬ ∃ sel, Valid U P.hard sel [] :=
  MDet.no_solution_of_encoded_unsat U hU P fuel s0 hun

/-- **The decision tracker of the exact model is consistent after every solve** (`decision_tracker.rs`, `decision_map.rs`;
    every universe, problem, fuel, solver state, synchronous or asynchronous, whatever the outcome): the assignment map and
    the decision stack agree entry by entry, no variable is assigned twice, the propagation cursor stays within the stack —
    so the value `propagate`, `decide` and conflict analysis read for a variable is exactly what the stack records. -/
theorem decision_tracker_consistent (U : Universe) (P : Problem) (fuel : Nat) (s0 : MDet.S) :
    MDet.DTInv (MDet.solveRun U P fuel s0).2 ∧
    ∀ v b, MDet.valueOf (MDet.solveRun U P fuel s0).2 v = some b ↔
      ∃ d ∈ (MDet.solveRun U P fuel s0).2.stack, d.var = v ∧ d.val = b :=
  ⟨MDet.solveRun_dtinv U P fuel s0, fun v b => MDet.valueOf_iff (MDet.solveRun_dtinv U P fuel s0) v b⟩

/-- **`try_add_decision` never overwrites an assignment** (exact model of `decision_tracker.rs`, every state): it cannot
    fail; on an unassigned variable it pushes exactly that decision at the given level and answers `some true`; on an
    assigned one it leaves the stack and the assignment map untouched and answers `some false` (same value) or `none`
    (opposite value — the conflict `propagate` acts on). -/
theorem try_add_decision_post (v : Nat) (val : Bool) (reason level : Nat) (s : MDet.S) :
    ∃ r s', MDet.runM (MDet.tryAdd v val reason level) s = (.ok r, s') ∧
      (match MDet.valueOf s v with
       | none => r = some true ∧ s'.stack = ⟨v, val, reason⟩ :: s.stack ∧ MDet.valueOf s' v = some val ∧ MDet.levelOf s' v = level
       | some b => s'.stack = s.stack ∧ s'.amap = s.amap ∧ r = (if b == val then some false else none)) :=
  MDet.tryAdd_post v val reason level s

/-- (a) certified Unsolvable -/
theorem unsat_certified (U : Universe) (P : Problem) (history : List Event) (st : St)
    (haccepted : runOpt U P history = some st) (hfail : st.failed.isSome = true) :
    ¬ Solvable U P := fail_sound U P history st haccepted hfail

/-- the reference decision procedure is correct -/
theorem decideSolvable_correct (U : Universe) (P : Problem) (hw : CandsKnown U) :
    decideSolvable U P = true ↔ Solvable U P := decideSolvable_iff U P hw

/-- (b) a valid solution of the hard problem witnesses solvability -/
theorem ok_solvable (U : Universe) (P : Problem) (sel : List Nat) (h : validB U P.hard sel [] = true) :
    Solvable U P := ⟨sel, (validB_iff U P.hard sel []).mp h⟩

/-- Two universes that agree on the facts `Valid` reads: same candidate *sets* per version set,
    same dependencies, names, exclusions and locks — but possibly different candidate order,
    ranks, favored candidates and hints. -/
structure SameFacts (U U' : Universe) : Prop where
  cands : ∀ vs x, x ∈ U.candsOf vs ↔ x ∈ U'.candsOf vs
  nonMatching : ∀ vs x, x ∈ U.nonMatching vs ↔ x ∈ U'.nonMatching vs
  unions : ∀ u, U.unionOf u = U'.unionOf u
  deps : ∀ s, U.deps s = U'.deps s
  names : ∀ s, U.nameOf s = U'.nameOf s
  excluded : ∀ s, U.excluded s = U'.excluded s
  lockedOut : ∀ s, U.lockedOut s = U'.lockedOut s

theorem reqCands_same (U U' : Universe) (h : SameFacts U U') (r : Req) (x : Nat) :
    x ∈ U.reqCands r ↔ x ∈ U'.reqCands r := by
  unfold Universe.reqCands Universe.reqVersionSets
  cases r with
  | single vs => simp [h.cands]
  | union u => simp [h.unions, h.cands]

theorem depsMet_same (U U' : Universe) (h : SameFacts U U') (sel : List Nat) (reqs : List Req)
    (cons : List Nat) : DepsMet U sel reqs cons ↔ DepsMet U' sel reqs cons := by
  unfold DepsMet
  constructor
  · rintro ⟨h1, h2⟩
    refine ⟨fun r hr => ?_, fun vs hvs t ht => h2 vs hvs t ((h.nonMatching vs t).mpr ht)⟩
    obtain ⟨c, hc, hs⟩ := h1 r hr
    exact ⟨c, (reqCands_same U U' h r c).mp hc, hs⟩
  · rintro ⟨h1, h2⟩
    refine ⟨fun r hr => ?_, fun vs hvs t ht => h2 vs hvs t ((h.nonMatching vs t).mp ht)⟩
    obtain ⟨c, hc, hs⟩ := h1 r hr
    exact ⟨c, (reqCands_same U U' h r c).mpr hc, hs⟩

theorem valid_same (U U' : Universe) (h : SameFacts U U') (P : Problem) (sel ex : List Nat) :
    Valid U P sel ex ↔ Valid U' P sel ex := by
  unfold Valid
  rw [depsMet_same U U' h]
  constructor
  · rintro ⟨h1, h2, h3, h4⟩
    refine ⟨h1, ?_, ?_, ?_⟩
    · intro s hs
      obtain ⟨reqs, cons, hd, hm⟩ := h2 s hs
      exact ⟨reqs, cons, by rw [← h.deps]; exact hd, (depsMet_same U U' h sel reqs cons).mp hm⟩
    · intro s hs he; rw [← h.excluded, ← h.lockedOut]; exact h3 s hs he
    · intro s hs t ht hn; exact h4 s hs t ht (by rw [h.names, h.names]; exact hn)
  · rintro ⟨h1, h2, h3, h4⟩
    refine ⟨h1, ?_, ?_, ?_⟩
    · intro s hs
      obtain ⟨reqs, cons, hd, hm⟩ := h2 s hs
      exact ⟨reqs, cons, by rw [h.deps]; exact hd, (depsMet_same U U' h sel reqs cons).mpr hm⟩
    · intro s hs he; rw [h.excluded, h.lockedOut]; exact h3 s hs he
    · intro s hs t ht hn; exact h4 s hs t ht (by rw [← h.names, ← h.names]; exact hn)

/-- (c) the verdict a correct solver must give is invariant under reordering of candidates,
    different ranks, favored candidates and hints -/
theorem verdict_invariant (U U' : Universe) (h : SameFacts U U') (P : Problem) :
    Solvable U P ↔ Solvable U' P := by
  unfold Solvable
  constructor
  · rintro ⟨sel, hv⟩; exact ⟨sel, (valid_same U U' h P.hard sel []).mp hv⟩
  · rintro ⟨sel, hv⟩; exact ⟨sel, (valid_same U U' h P.hard sel []).mpr hv⟩

/-! Non-vacuity: a two-package universe where the only candidate of the required package needs a
    package without candidates; the history below is accepted and records a failure. -/
def exU : Universe :=
  { pkgs := [(0, { cands := [0] }), (1, { cands := [] })],
    solvs := [(0, { name := 0, rank := 0, deps := .known [.single 1] [] })],
    vsets := [(0, { name := 0, matching := [0] }), (1, { name := 1, matching := [] })] }
def exP : Problem := { reqs := [.single 0] }
def exHistory : List Event :=
  [.clause 0 .root [], .assign 0 true 1 0, .var 1 (.solvable 0), .clause 1 (.requires 0 (.single 0)) [[1]],
   .clause 2 (.requires 1 (.single 1)) [[]], .assign 1 false 1 2, .unsolvable 1]
example : ((runOpt exU exP exHistory).map (fun st => st.failed.isSome)) = some true := by decide
example : decideSolvable exU exP = false := by decide

end Resolvo.C02
