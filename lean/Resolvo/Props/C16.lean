import Resolvo.Snapshot
import Resolvo.Props.C19
import Resolvo.Enc.ReferenceProofs
import Resolvo.SubUniverse
/-!
# C16 — a dependency snapshot is a faithful, serialisable copy of a provider

Per run the check compares the real `DependencySnapshot` field by field with the model's capture
(before and after a serde round-trip), solves live / through the snapshot / through the
deserialised snapshot and judges verdicts and solutions against the *live* data with the verified
oracles. Proved here, for every snapshot and any number of added version sets:
ids handed out by `add_package_requirement` never alias a captured id or each other, every
captured id (including the highest) still resolves to the captured set, and every added id
resolves to its added set. The serde part rests on `C19.serde_roundtrip` (every `Mapping` of the
snapshot keeps its contents).
-/
namespace Resolvo.C16
open Resolvo Resolvo.Snap

theorem foldl_max_ge (l : List (Nat × VsInfo)) (m : Nat) :
    m ≤ l.foldl (fun m e => Nat.max m e.1) m ∧ ∀ e ∈ l, e.1 ≤ l.foldl (fun m e => Nat.max m e.1) m := by
  induction l generalizing m with
  | nil => exact ⟨Nat.le_refl _, by intro e he; cases he⟩
  | cons x xs ih =>
    simp only [List.foldl_cons]
    obtain ⟨h1, h2⟩ := ih (Nat.max m x.1)
    refine ⟨Nat.le_trans (Nat.le_max_left _ _) h1, ?_⟩
    intro e he
    rcases List.mem_cons.mp he with rfl | he
    · exact Nat.le_trans (Nat.le_max_right _ _) h1
    · exact h2 e he

/-- every captured version-set id is at most `max` -/
theorem captured_le_max (sn : Snapshot) (e : Nat × VsInfo) (he : e ∈ sn.versionSets) : e.1 ≤ maxVs sn :=
  (foldl_max_ge sn.versionSets 0).2 e he

/-- (d) added ids are fresh: never a captured id … -/
theorem added_fresh (sn : Snapshot) (k : Nat) (e : Nat × VsInfo) (he : e ∈ sn.versionSets) : addedId sn k ≠ e.1 := by
  have := captured_le_max sn e he
  unfold addedId; omega

/-- … and pairwise distinct -/
theorem added_distinct (sn : Snapshot) (j k : Nat) (h : addedId sn j = addedId sn k) : j = k := by
  unfold addedId at h; omega

/-- every captured version set — including the highest-numbered — stays resolvable to itself -/
theorem captured_resolves (sn : Snapshot) (added : List VsInfo) (id : Nat) (info : VsInfo)
    (h : sn.versionSets.lookup id = some info) : resolveVs sn added id = some info := by
  unfold resolveVs
  have hmem := Resolvo.mem_of_lookup _ _ _ h
  have hle := captured_le_max sn (id, info) hmem
  have : ¬ (id ≥ maxVs sn + 1) := by simp at hle ⊢; omega
  simp [this, h]

/-- every added version set resolves to what was added -/
theorem added_resolves (sn : Snapshot) (added : List VsInfo) (k : Nat) (info : VsInfo)
    (h : added[k]? = some info) : resolveVs sn added (addedId sn k) = some info := by
  unfold resolveVs addedId
  have : maxVs sn + 1 + k ≥ maxVs sn + 1 := by omega
  simp only [this, if_true]
  have e : maxVs sn + 1 + k - (maxVs sn + 1) = k := by omega
  rw [e]; exact h

/-- (e) the serialised form of each `Mapping` in a snapshot deserialises to the same contents -/
theorem mapping_roundtrip {V : Type} (m : Resolvo.Mapping.M V) (r : Nat → Option V)
    (h : Resolvo.C19.Represents m r) :
    Resolvo.C19.Represents (Resolvo.Mapping.deserialize m.chunkSize (Resolvo.Mapping.serialize m)) r :=
  Resolvo.C19.serde_roundtrip m r h

/-- the seeds are part of every capture (the closure only grows) -/
theorem closure_mono (U : Universe) (fuel : Nat) (queue seen : List Elem) (e : Elem) (h : e ∈ seen) :
    e ∈ closure U fuel queue seen := by
  induction fuel generalizing queue seen with
  | zero => simpa [closure] using h
  | succ n ih =>
    cases queue with
    | nil => simpa [closure] using h
    | cons q qs =>
      simp only [closure]
      exact ih _ _ (List.mem_append_left _ h)

/-! ## Same verdict, and solutions valid against the live data

`SubAgree` (SubUniverse.lean) is decided by `subAgreeB`; the check evaluates it for every generated snapshot on the
captured solvables / version sets (tag `closure-certificate`), with the snapshot's contents compared field by field with
the real `DependencySnapshot` before and after the serde round-trip. -/

/-- **Same verdict through a snapshot**: if the captured part of the universe passes the closure certificate, the problem
    is solvable for the universe the snapshot denotes (with any added version sets) iff it is solvable for the live one. -/
theorem snapshot_solvable_agree (U : Universe) (P : Problem) (sn : Snapshot) (added : List (Nat × VsInfo)) (S V : List Nat)
    (h : subAgreeB U (toUniverse sn added) S V P = true) : Solvable (toUniverse sn added) P ↔ Solvable U P :=
  solvable_agree U _ S V P (subAgreeB_sound U _ S V P h)

/-- **Solutions found through a snapshot are valid against the live provider's data** (and vice versa), for selections
    of captured solvables. -/
theorem snapshot_valid_agree (U : Universe) (P : Problem) (sn : Snapshot) (added : List (Nat × VsInfo)) (S V : List Nat)
    (h : subAgreeB U (toUniverse sn added) S V P = true) (sel : List Nat) (hsub : ∀ s ∈ sel, s ∈ S) :
    Valid (toUniverse sn added) P sel [] ↔ Valid U P sel [] :=
  valid_agree U _ S V P (subAgreeB_sound U _ S V P h) sel hsub

end Resolvo.C16
