import Resolvo.MDet.CheckedProofs
/-!
# C13 — a solver can be reused: later solves are as correct as with a fresh solver

`history` runs any finite sequence of problems on one solver of the checked model: the per-solve
state is reset by `solve`, the cache (fetched candidates / dependencies, hint bits, sorted lists),
the poll counter and the cancellation plan persist. Because the theorems about `solveChecked`
hold for *every* initial solver state, each call of every history — after Unsolvable, after
Cancelled, with any cache contents — returns only valid solutions and only sound Unsolvable
verdicts. "Not requested again" and "terminates" are decided per run: the exact correspondence
compares the provider call log of whole histories (sync), and the reuse-async family checks
at-most-once on answers actually obtained and absence of deadlock after cancellation with requests
in flight (a genuine defect found there was repaired, see known_findings.json).
-/
namespace Resolvo.C13
open Resolvo Resolvo.MDet

/-- successive solves on one solver -/
def history (U : Universe) (fuel : Nat) : S → List Problem → List (Problem × Checked)
  | _, [] => []
  | s, P :: rest =>
    let r := solveChecked U P fuel s
    (P, r.1) :: history U fuel r.2 rest

/-- every solution returned anywhere in any history is valid (C01) and supported (C05) -/
theorem each_valid (U : Universe) (fuel : Nat) (s : S) (ps : List Problem) (P : Problem) (sol : List Nat)
    (h : (P, Checked.ok sol) ∈ history U fuel s ps) :
    Valid U P sol (exemptOf P sol) ∧ ∀ x ∈ sol, Resolvo.C05.Supported U P sol x := by
  induction ps generalizing s with
  | nil => cases h
  | cons Q rest ih =>
    simp only [history, List.mem_cons] at h
    rcases h with h | h
    · have hP : P = Q := (Prod.mk.inj h).1
      have hr : (solveChecked U Q fuel s).1 = Checked.ok sol := (Prod.mk.inj h).2.symm
      subst hP
      exact ⟨solveChecked_ok_valid U P fuel s sol hr, solveChecked_ok_supported U P fuel s sol hr⟩
    · exact ih _ h

/-- every Unsolvable verdict anywhere in any history is the verdict a fresh solver must give -/
theorem each_verdict (U : Universe) (fuel : Nat) (s : S) (ps : List Problem) (P : Problem) (c : List Nat)
    (h : (P, Checked.unsat c) ∈ history U fuel s ps) : ¬ Solvable U P := by
  induction ps generalizing s with
  | nil => cases h
  | cons Q rest ih =>
    simp only [history, List.mem_cons] at h
    rcases h with h | h
    · have hP : P = Q := (Prod.mk.inj h).1
      have hr : (solveChecked U Q fuel s).1 = Checked.unsat c := (Prod.mk.inj h).2.symm
      subst hP
      exact solveChecked_unsat_sound U P fuel s c hr
    · exact ih _ h

end Resolvo.C13
