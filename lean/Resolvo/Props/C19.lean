import Resolvo.Data.MappingProofs
/-!
# C19 — `Mapping` behaves as a map from ids to values, including iteration and serde

Statements only. The model is `Resolvo.Mapping` (a literal transcription of
`src/internal/mapping.rs`); the reference is a function `Nat → Option V`.
All theorems hold for every operation sequence, every id distribution and
every positive chunk size.
-/
namespace Resolvo.C19
open Resolvo.Mapping
variable {V : Type}

inductive Op (V : Type) where
  | insert (id : Nat) (v : V)
  | unset (id : Nat)
  /-- `get_mut(id)` and, if it returns a reference, a write of `v` through it -/
  | getMut (id : Nat) (v : V)

/-- One step of the model, with the value the Rust call returns. -/
def step (m : M V) : Op V → M V × Option V
  | .insert id v => Mapping.insert m id v
  | .unset id => Mapping.unset m id
  | .getMut id v => Mapping.getMut m id v

/-- One step of the reference map. -/
def refStep (r : Nat → Option V) : Op V → (Nat → Option V) × Option V
  | .insert id v => (fun j => if j = id then some v else r j, r id)
  | .unset id => (fun j => if j = id then none else r j, r id)
  | .getMut id v => (fun j => if j = id then (r id).map (fun _ => v) else r j, r id)

def run (m : M V) (ops : List (Op V)) : M V := ops.foldl (fun m op => (step m op).1) m
def refRun (r : Nat → Option V) (ops : List (Op V)) : Nat → Option V :=
  ops.foldl (fun r op => (refStep r op).1) r

/-- The model state `m` represents the reference map `r`. -/
def Represents (m : M V) (r : Nat → Option V) : Prop := Inv m ∧ ∀ id, Mapping.get m id = r id

theorem get_eq_slot (m : M V) (id : Nat) : Mapping.get m id = slot m id := by
  unfold Mapping.get
  split
  · next h => exact (slot_none_of_out m id h).symm
  · rfl

/-- A fresh mapping (any capacity) represents the empty map. -/
theorem withCapacity_represents (c n : Nat) (hc : 0 < c) :
    Represents (withCapacity c n : M V) (fun _ => none) :=
  ⟨inv_withCapacity c n hc, fun id => by rw [get_eq_slot, slot_withCapacity]⟩

/-- Each operation returns what the reference returns and keeps the representation. -/
theorem step_refines (m : M V) (r : Nat → Option V) (h : Represents m r) (op : Op V) :
    (step m op).2 = (refStep r op).2 ∧ Represents (step m op).1 (refStep r op).1 := by
  obtain ⟨hi, hg⟩ := h
  cases op with
  | insert id v =>
    refine ⟨?_, inv_insert m hi id v, ?_⟩
    · show (Mapping.insert m id v).2 = r id
      rw [insert_prev, ← get_eq_slot, hg]
    · intro j
      show Mapping.get (Mapping.insert m id v).1 j = if j = id then some v else r j
      rw [get_eq_slot, slot_insert m hi.toShape, ← get_eq_slot, hg]
  | unset id =>
    refine ⟨?_, inv_unset m hi id, ?_⟩
    · show (Mapping.unset m id).2 = r id
      rw [unset_prev, ← get_eq_slot, hg]
    · intro j
      show Mapping.get (Mapping.unset m id).1 j = if j = id then none else r j
      rw [get_eq_slot, slot_unset m hi.toShape, ← get_eq_slot, hg]

  | getMut id v =>
    have hs : slot m id = r id := by rw [← get_eq_slot, hg]
    cases hr : r id with
    | none =>
      rw [hr] at hs
      have he := getMut_absent m id v hs
      refine ⟨?_, ?_, ?_⟩
      · show (Mapping.getMut m id v).2 = r id
        rw [he, hr]
      · show Inv (Mapping.getMut m id v).1
        rw [he]; exact hi
      · intro j
        show Mapping.get (Mapping.getMut m id v).1 j = if j = id then (r id).map (fun _ => v) else r j
        rw [he, hg]
        split
        · next hj => subst hj; rw [hr]; rfl
        · rfl
    | some old =>
      rw [hr] at hs
      have he := getMut_eq_insert m hi id v old hs
      refine ⟨?_, ?_, ?_⟩
      · show (Mapping.getMut m id v).2 = r id
        rw [he, hr]
      · show Inv (Mapping.getMut m id v).1
        rw [he]; exact inv_insert m hi id v
      · intro j
        show Mapping.get (Mapping.getMut m id v).1 j = if j = id then (r id).map (fun _ => v) else r j
        rw [he, get_eq_slot, slot_insert m hi.toShape, ← get_eq_slot, hg, hr]
        rfl

/-- (a) `get` after any operation sequence agrees with the reference map. -/
theorem run_represents (m : M V) (r : Nat → Option V) (h : Represents m r) (ops : List (Op V)) :
    Represents (run m ops) (refRun r ops) := by
  induction ops generalizing m r with
  | nil => exact h
  | cons op ops ih => exact ih _ _ (step_refines m r h op).2

theorem get_refines (c : Nat) (hc : 0 < c) (n : Nat) (ops : List (Op V)) (id : Nat) :
    Mapping.get (run (withCapacity c n) ops) id = refRun (fun _ => none) ops id :=
  (run_represents _ _ (withCapacity_represents c n hc) ops).2 id

/-- (c) `iter` yields exactly the stored pairs … -/
theorem iter_complete (m : M V) (r : Nat → Option V) (h : Represents m r) (k : Nat) (v : V) :
    (k, v) ∈ Mapping.iter m ↔ r k = some v := by
  obtain ⟨hi, hg⟩ := h
  unfold Mapping.iter
  rw [mem_iterFrom m (m.max + 1) 0 (by omega), ← hg, get_eq_slot]
  constructor
  · exact fun h => h.2.2
  · exact fun h => ⟨Nat.zero_le _, hi.keys_le k v h, h⟩

/-- … in strictly ascending id order (hence each exactly once). -/
theorem iter_sorted (m : M V) : ((Mapping.iter m).map Prod.fst).Pairwise (· < ·) :=
  iterFrom_sorted m (m.max + 1) 0

theorem iter_nodup (m : M V) : (Mapping.iter m).Nodup := by
  have h := iter_sorted m
  have h2 : ((Mapping.iter m).map Prod.fst).Pairwise (· ≠ ·) := h.imp (fun hlt => Nat.ne_of_lt hlt)
  exact List.Pairwise.of_map Prod.fst (fun a b hab he => hab (by rw [he])) h2

/-- (b) `len` is the number of stored pairs. -/
theorem len_eq_iter_length (m : M V) (r : Nat → Option V) (h : Represents m r) :
    m.len = (Mapping.iter m).length := by
  obtain ⟨hi, _⟩ := h
  have := length_iterFrom m (m.max + 1) 0 (by omega) (Nat.zero_le _)
  have h0 : countBelow m 0 = 0 := by simp [countBelow]
  rw [hi.len_eq]
  unfold Mapping.iter
  omega

theorem isEmpty_iff (m : M V) (r : Nat → Option V) (h : Represents m r) :
    Mapping.isEmpty m = true ↔ ∀ k, r k = none := by
  have hl := len_eq_iter_length m r h
  unfold Mapping.isEmpty
  rw [beq_iff_eq, hl, List.length_eq_zero_iff]
  constructor
  · intro hnil k
    cases hk : r k with
    | none => rfl
    | some v =>
      have := (iter_complete m r h k v).mpr hk
      rw [hnil] at this; cases this
  · intro hall
    cases hit : Mapping.iter m with
    | nil => rfl
    | cons p ps =>
      have hmem : (p.1, p.2) ∈ Mapping.iter m := by rw [hit]; exact List.mem_cons_self
      have := (iter_complete m r h p.1 p.2).mp hmem
      rw [hall] at this; cases this

/-- (d) serde round-trip: same contents (and a well-formed mapping). -/
theorem serde_roundtrip (m : M V) (r : Nat → Option V) (h : Represents m r) :
    Represents (deserialize m.chunkSize (serialize m)) r := by
  obtain ⟨hi, hg⟩ := h
  have h0 := inv_withCapacity (V := V) m.chunkSize (serialize m).length hi.pos
  obtain ⟨hinv, hsl⟩ := insertAll_spec (withCapacity m.chunkSize (serialize m).length) h0 0 (serialize m)
  refine ⟨hinv, ?_⟩
  intro j
  unfold deserialize
  rw [get_eq_slot, hsl j, slot_withCapacity, ← hg, get_eq_slot]
  simp only [Nat.zero_le, true_and, Nat.sub_zero]
  rw [serialize_getElem? m hi.toShape]
  by_cases hj : j ≤ m.max
  · simp only [hj, if_true]
    cases hs : slot m j <;> simp
  · simp only [hj, if_false]
    cases hs : slot m j with
    | none => simp
    | some v => exact absurd (hi.keys_le j v hs) hj

/-! ### Non-vacuity: a concrete sparse mapping meets the hypotheses and iterates fully. -/
example : Mapping.iter (run (Mapping.new 4 : M Nat) [.insert 5 50, .insert 200 2000, .insert 1 7, .unset 1])
    = [(5, 50), (200, 2000)] := by decide

end Resolvo.C19
