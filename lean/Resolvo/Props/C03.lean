import Resolvo.Graph
import Resolvo.Abs.Fail
import Resolvo.RenderTruth
import Resolvo.MDet.CheckedProofs
import Resolvo.MDet.ModelGraph
/-!
# C03 — a conflict report is a truthful, self-contained proof of unsatisfiability

Per run, on every Unsolvable answer of the implementation, the check evaluates on the
implementation's own `ConflictGraph` (public fields): `edgesTrueB` (each edge against the
provider's data, incl. "targets are exactly the requirement's candidates, or the unresolved node
if it has none"), `reachableB` (BFS recomputed) and `graphRefutes`; and on the clause ids the
`Conflict` blames (hook accessor): the blamed clauses alone refute the root and contain no learnt
clause. Proved here: `graphRefutes` is exact (verified DPLL), every learnt clause of an accepted
history is entailed by its recorded antecedents (so expanding `learnt_why` loses nothing), and
provenance: every non-learnt clause in an accepted history states a true fact (`Prov`).
-/
namespace Resolvo.C03
open Resolvo Resolvo.Graph Resolvo.Sat Resolvo.Abs

/-- (c) the refutation oracle is exact: it answers `true` iff no assignment satisfies the graph's reading -/
theorem refutes_exact (g : G) : graphRefutes g = true ↔ ¬ ∃ a, evalCnf a (cnfOfGraph g) = true :=
  graphRefutes_iff g

/-- a learnt clause accepted by the abstract system follows from the antecedents recorded for it
    (`learnt_why`): reporting the antecedents instead of the learnt clause is sound -/
theorem learnt_from_antecedents (why : Cnf) (learnt : Clause) (h : rup why learnt = true)
    (a : Nat → Bool) (hw : evalCnf a why = true) : evalClause a learnt = true :=
  rup_sound why learnt h a hw

/-- (a) every clause of an accepted history (the pool conflict clauses are drawn from) states a
    true fact of the provider's data -/
theorem clauses_truthful (U : Universe) (P : Problem) (history : List Event) (st : St)
    (hacc : runOpt U P history = some st) : ∀ cl ∈ st.db, Prov U P st.origins cl :=
  (run_inv U P history {} st ⟨linv_init, sinv_init U P⟩ hacc).2.prov

/-- **(a) every edge is true** — for the exact model of `Conflict::graph` (`Render.buildGraph`: same nodes, edges and
    insertion order as the real graph; its edges and the message rendered from it are compared with the real ones on
    every generated conflict): whatever clauses of an accepted history are blamed, each edge of the graph built from
    them states a true fact of the provider's data — a requires edge's requirement belongs to its source and its target is
    one of that requirement's candidates (the unresolved node only if it has none); constrains, lock and exclusion edges
    point at solvables that really are non-matching, locked out or excluded; forbid edges join solvables of one package. -/
theorem edges_truthful (U : Universe) (P : Problem) (history : List Event) (st : St)
    (hacc : runOpt U P history = some st) (ids : List Nat) (hids : ∀ id ∈ ids, id < st.db.length) :
    ∀ x ∈ Render.nodeEdges (Render.buildGraph U st.origins (ids.map (fun id => (st.db.getD id default).kind))),
      Render.EdgeTrue U P x.1 x.2.1 x.2.2 :=
  Render.buildGraph_edges_true U P st (run_inv U P history {} st ⟨linv_init, sinv_init U P⟩ hacc).2 ids hids

/-- **C03 for the checked model** (all universes / problems / solver states / fuel): an Unsolvable answer of the checked
    deterministic model of `Solver::solve` comes with a conflict graph — the exact model of `Conflict::graph` applied to the
    clauses the conflict blames — in which every edge states a true fact of the provider's data, every node is reachable
    from the root, and the facts shown in the graph alone (with one-solvable-per-package for forbid-joined nodes) admit no
    selection that installs the root. -/
theorem unsat_graph_checked (U : Universe) (P : Problem) (fuel : Nat) (s : MDet.S) (c : List Nat)
    (h : (MDet.solveChecked U P fuel s).1 = .unsat c) :
    ∃ st, runOpt U P (MDet.absEvents (MDet.solveRun U P fuel { s with trace := [] }).2.trace.reverse) = some st ∧
      (∀ x ∈ Render.nodeEdges (MDet.conflictGraphOf U st c), Render.EdgeTrue U P x.1 x.2.1 x.2.2) ∧
      reachableB (MDet.graphEdges (MDet.conflictGraphOf U st c)) (MDet.conflictGraphOf U st c).nodes.toList = true ∧
      ¬ ∃ a, evalCnf a (cnfOfGraph (MDet.graphEdges (MDet.conflictGraphOf U st c))) = true :=
  MDet.solveChecked_unsat_graph U P fuel s c h

/-- **(a) for the exact model itself, with no checker in between** (all universes that respect the provider contract
    `WFU` — listed candidates carry the package's name, locked and excluded solvables are candidates —, all problems, solver
    states carried over from earlier solves incl. cache, cancellation plan and asynchronous completion order, fuel, and all
    sets of blamed clauses): every edge of the conflict graph that the exact model of `Conflict::graph` builds from the
    clause arena and variable map of the exact model of `Solver::solve` states a true fact of the provider's data. The
    proof is an invariant of the model's encoder carried through every function of the model (`MDet/Truth.lean`,
    `MDet/TruthSpec.lean`): each `Clauses::alloc` site of the encoder is shown to state a fact the provider gave. -/
theorem edges_truthful_exact_model (U : Universe) (hU : MDet.WFU U) (P : Problem) (fuel : Nat) (s : MDet.S) (ids : List Nat) :
    ∀ x ∈ Render.nodeEdges (MDet.modelGraph U (MDet.solveRun U P fuel s).2 ids), Render.EdgeTrue U P x.1 x.2.1 x.2.2 :=
  MDet.modelGraph_edges_true U hU P fuel s ids

/-- the invariant behind it: after every solve, every clause in the model's arena states a true fact -/
theorem model_clauses_truthful (U : Universe) (hU : MDet.WFU U) (P : Problem) (fuel : Nat) (s : MDet.S) :
    ∀ c ∈ (MDet.solveRun U P fuel s).2.clauses.toList, KindTrue U P (MDet.solveRun U P fuel s).2.origins c.kind :=
  (MDet.solveRun_tinv U hU P fuel s).kinds

/-- the provider contract is decidable; the driver evaluates it on every generated universe -/
theorem provider_contract_decidable (U : Universe) (h : MDet.wfuB U = true) : MDet.WFU U := MDet.wfuB_sound U h

/-! Non-vacuity: the graph "root requires {s0}; s0 requires a package without candidates". -/
def exG : G := [⟨.root, .solv 0, .req (.single 0)⟩, ⟨.solv 0, .unresolved, .req (.single 1)⟩]
example : graphRefutes exG = true := by decide
example : graphRefutes [⟨.root, .solv 0, .req (.single 0)⟩] = false := by decide

end Resolvo.C03
