import Resolvo.Oracles
import Resolvo.Enc.ReferenceProofs
/-!
# C10 / C11 — asynchronous metadata requests

Decided per run by the async families: the real solver runs with an asynchronous provider under
a manual single-threaded executor that completes one outstanding request at a time according to
a schedule (FIFO, LIFO, seeded random; optionally with `filter_candidates` / `sort_candidates`
asynchronous too). On every run: the answer is valid (verified `validB`), the verdict equals the
verified `decideSolvable` (hence equals the synchronous verdict), no provider answer that was
obtained is requested again, the executor never finds the solver pending with nothing outstanding
(deadlock), and — C11 — at every quiescent point every `get_candidates` request implied by
dependency information already received is outstanding or answered (`c11Check`).
Proved here: the verdict oracle is schedule-independent by construction (it is a function of the
universe and the problem only) and exact.
-/
namespace Resolvo.C10
open Resolvo

/-- the reference verdict does not mention schedules at all and is exact: any two runs that both
    agree with it agree with each other (async = sync verdict) -/
theorem verdict_reference (U : Universe) (P : Problem) (hw : CandsKnown U) :
    decideSolvable U P = true ↔ Solvable U P := decideSolvable_iff U P hw

end Resolvo.C10
