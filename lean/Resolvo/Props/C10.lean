import Resolvo.Oracles
import Resolvo.Enc.ReferenceProofs
import Resolvo.MDet.AsyncProofs
import Resolvo.MDet.AsyncInv
import Resolvo.MDet.AsyncOnce
import Resolvo.MDet.CheckedProofs
import Resolvo.MDet.AsyncDeps
/-!
# C10 / C11 — asynchronous metadata requests

**Model.** `MDet/Async.lean` models `Encoder::encode` with a suspending provider: the ready queue of
`FuturesUnordered`, the in-flight marker and event listeners of `get_or_cache_candidates`, `try_join_all` over
the version sets of a requirement and the executor's quiescent points, for a single-threaded executor that
completes one outstanding request at a time. The completion order is an input. The correspondence harness
compares the model with the real solver under the same completion order for exact equality of result, solution
order, provider call log (request start `c`/`d`, answer obtained `C`/`D`, cancellation polls), executor events
(`pending <set>` at every quiescent point, `complete <label>`) and the complete solver history.

**Proved here (about the model, for all universes, states and schedules).**
* C11, run level: `quiescent_every_future_started` — in every reachable state of the encoder loop, an empty ready
  queue means every pushed future has been started (`asyncStep_inv`: one step preserves the loop invariant);
* C11, one future: `req_future_starts_every_version_set` — one poll of the future of a requirement starts *every*
  version set of it (finished, request issued, or listening to a request in flight): requests are never issued one
  after the other's answer;
* C10, run level: `at_most_once_candidates` — along every run of the encoder loop no package's candidates are requested
  twice (`asyncStep_cinv` + `callbacks_issue_nothing`: the frame lemmas of `MDet/Frame.lean` show that clause generation
  never touches the provider cache);
* C10, run level: `at_most_once_dependencies` — along every run of the encoder loop no solvable's dependencies are
  requested twice (`asyncStep_dinv`; the callbacks are covered by the relational specification `QR`);
* C10, one await: `request_only_if_unknown`, `listener_issues_nothing` — a `get_candidates` request is issued only
  when the answer is neither cached nor in flight and is marked in flight from then on; an await that finds a
  request in flight issues nothing;
* `verdict_reference`: the verdict oracle is a function of the universe and the problem alone and exact, so all
  schedules that agree with it agree with each other and with the synchronous verdict.

**Checked per run (not theorems):** the run-level consequences — no request issued twice in a whole solve, every
request implied by received dependency information outstanding at every quiescent point (`c11Check`), no deadlock —
are evaluated on the implementation's own log and the model is compared event by event.
-/
namespace Resolvo.C10
open Resolvo Resolvo.MDet

/-- the reference verdict does not mention schedules at all and is exact: any two runs that both
    agree with it agree with each other (async = sync verdict) -/
theorem verdict_reference (U : Universe) (P : Problem) (hw : CandsKnown U) :
    decideSolvable U P = true ↔ Solvable U P := decideSolvable_iff U P hw

/-- C11 (one future) -/
theorem req_future_starts_every_version_set (U : Universe) (P : Problem) (t : ATask) (sid : SoR) (r : Req) (a : AS)
    (s s' : S) (t' : ATask) (a' : AS) (res : Option TaskResult) (ht : t.task = .req sid r)
    (h : runM (pollTask U P t a) s = (.ok (t', a', res), s')) :
    t'.children.map (·.vs) = t.children.map (·.vs) ∧ ∀ c ∈ t'.children, c.started :=
  pollTask_req_started U P t sid r a s s' t' a' res ht h

/-- C11 (run level, model): in every state the encoder loop can reach — any universe, problem, solver state and
    completion order — an empty ready queue (the executor is about to see `Pending`) means every future pushed so far
    has been started: request outstanding, listening to one in flight, or parked on a filter/sort gate. With
    `req_future_starts_every_version_set` this covers every version set of every requirement known so far. -/
theorem quiescent_every_future_started {U : Universe} {P : Problem} {a : AS} {s : S} (h : Reach U P a s)
    (hq : a.ready = []) : ∀ t ∈ a.tasks, t.started := reach_quiescent_all_started h hq

/-- a universe with two packages and a root that requires both -/
def exU : Universe :=
  { pkgs := [(0, { cands := [0] }), (1, { cands := [1] })],
    solvs := [(0, ⟨0, 0, Deps.known [] []⟩), (1, ⟨1, 0, Deps.known [] []⟩)],
    vsets := [(0, ⟨0, [0]⟩), (1, ⟨1, [1]⟩)] }
def exP : Problem := { reqs := [.single 0, .single 1] }

/-- non-vacuity, and the scenario of the property itself: three steps of the model's encoder loop on a root with
    two requirements on distinct packages reach a state in which **both** `get_candidates` requests are outstanding
    (and the two requirement futures are next in the ready queue) — nothing has been answered yet -/
example : ∃ a s, Reach exU exP a s ∧ a.gates.map (·.1) = ["c0", "c1"] ∧ a.ready = [3, 4] ∧ s.fetchedCands = [] :=
  ⟨_, _, .step (.step (.step (.start { queue := [.deps none], asyncMode := true }) rfl) rfl) rfl, rfl, rfl, rfl⟩

/-- C10 (run level, model): along every run of the encoder loop - any universe, problem, completion order - no
    package's candidates are requested twice, and every requested package is answered or still in flight -/
theorem at_most_once_candidates {U : Universe} {P : Problem} {s0 : S} {a : AS} {s : S}
    (h0 : s0.issuedCands.Nodup) (h1 : ∀ n ∈ s0.issuedCands, n ∈ s0.fetchedCands) (h : ReachFrom U P s0 a s) :
    s.issuedCands.Nodup ∧ ∀ n ∈ s.issuedCands, n ∈ s.fetchedCands ∨ (a.inflight.lookup n).isSome = true :=
  candidates_requested_at_most_once h0 h1 h

/-- C10 (run level, model): along every run of the encoder loop - any universe, problem, completion order - the
    dependencies of no solvable are requested twice. `DInv` (MDet/AsyncDeps.lean) is the invariant behind it: the
    `deps` futures that exist are pairwise distinct and belong to processed solvables, every requested solvable is
    processed, and a future that has not started has not been requested; callbacks, polls of other futures and the
    executor only extend the push queue by futures of newly processed solvables. -/
theorem at_most_once_dependencies {U : Universe} {P : Problem} {s0 : S} {a : AS} {s : S}
    (h0 : DInv {} s0 s0.queue) (h : ReachD U P s0 a s) : s.issuedDeps.Nodup :=
  (dependencies_requested_at_most_once h0 h).1

/-- the hypothesis holds at the start of a solve (nothing requested, nothing pushed) … -/
theorem at_most_once_dependencies_fresh {U : Universe} {P : Problem} {s0 : S} {a : AS} {s : S}
    (h1 : s0.issuedDeps = []) (h2 : s0.queue = []) (h : ReachD U P s0 a s) : s.issuedDeps.Nodup :=
  at_most_once_dependencies (dinv_fresh s0 h1 h2) h

/-- … and, non-vacuity, when `encode` has pushed the future of a newly processed solvable: one step of the loop
    adopts it, polls it and records exactly its request -/
example : ∃ a s, ReachD exU exP { queue := [.deps (some 0)], addedSolv := [some 0], asyncMode := true } a s ∧ s.issuedDeps = [0] :=
  ⟨_, _, .step .start rfl, rfl⟩

/-- the encoder's callbacks (clause generation) never issue a provider request nor touch what has been answered -/
theorem callbacks_issue_nothing (U : Universe) (P : Problem) (r : TaskResult) : Preserves cacheView (runCallback U P r) :=
  pres_runCallback U P r

/-- non-vacuity of `at_most_once_candidates`: a fresh solve (nothing requested) meets the hypotheses, and after three
    steps on the two-requirement root both packages are recorded as requested, once each -/
example : ∃ a s, ReachFrom exU exP { queue := [.deps none], asyncMode := true } a s ∧ s.issuedCands = [1, 0] :=
  ⟨_, _, .step (.step (.step .start rfl) rfl) rfl, rfl⟩

/-- C10 (one await) -/
theorem request_guard (U : Universe) (tid n : Nat) (a : AS) (s s' : S) (a' : AS)
    (h : runM (pollCands U tid n .notStarted a) s = (.ok (.owner, a'), s')) :
    s.fetchedCands.contains n = false ∧ a.inflight.lookup n = none ∧ a'.inflight.lookup n = some tid :=
  request_only_if_unknown U tid n a s s' a' h

/-- non-vacuity: on a fresh cache the first await of package 5 issues the request and owns it; a second await (other
    future) of the same package then listens and issues nothing -/
example : ∃ a' s', runM (pollCands {} 0 5 .notStarted {}) {} = (.ok (.owner, a'), s') ∧
    ∃ a'' s'', runM (pollCands {} 1 5 .notStarted a') s' = (.ok (.listener, a''), s'') ∧ a''.gates = a'.gates :=
  ⟨_, _, rfl, _, _, rfl, rfl⟩

/-! ## Any completion order gives a correct result (checked model)

The completion order of the outstanding requests (`S.sched`), the mode (`asyncMode`, `gateFs`) and everything else
about the solver state are universally quantified in the theorems about `solveChecked`; the statements below spell
this out for C10. `withOrder s sched` is the solver state `s` switched to the asynchronous provider with the
completion order `sched`. -/

/-- the solver state `s` with an asynchronous provider (optionally asynchronous filter/sort) whose outstanding
    requests complete in the order `sched` -/
def withOrder (s : S) (sched : List String) (gateFs : Bool := false) : S :=
  { s with asyncMode := true, gateFs := gateFs, sched := sched }

/-- **Any completion order: the solution is valid per C01.** -/
theorem any_order_valid (U : Universe) (P : Problem) (fuel : Nat) (s : S) (sched : List String) (g : Bool) (sol : List Nat)
    (h : (solveChecked U P fuel (withOrder s sched g)).1 = .ok sol) : Valid U P sol (exemptOf P sol) :=
  solveChecked_ok_valid U P fuel _ sol h

/-- **Any completion order: Unsolvable only if there is no solution.** -/
theorem any_order_unsat_sound (U : Universe) (P : Problem) (fuel : Nat) (s : S) (sched : List String) (g : Bool) (c : List Nat)
    (h : (solveChecked U P fuel (withOrder s sched g)).1 = .unsat c) : ¬ Solvable U P :=
  solveChecked_unsat_sound U P fuel _ c h

/-- **The verdict does not depend on the completion order, and equals the synchronous verdict**: no two runs — under
    any two completion orders, or one of them synchronous (`s₂` arbitrary) — can end one with a solution and the
    other Unsolvable. -/
theorem verdict_independent_of_order (U : Universe) (P : Problem) (hsoft : P.soft = []) (fuel₁ fuel₂ : Nat) (s₁ s₂ : S)
    (sched : List String) (g : Bool) (sol c : List Nat)
    (h1 : (solveChecked U P fuel₁ (withOrder s₁ sched g)).1 = .ok sol) :
    (solveChecked U P fuel₂ s₂).1 ≠ .unsat c := by
  intro h2
  exact solveChecked_unsat_sound U P fuel₂ s₂ c h2 (solveChecked_ok_solvable U P fuel₁ _ sol hsoft h1)

/-- with soft requirements the hard verdict is still order-independent: a solvable hard problem never ends Unsolvable -/
theorem any_order_soft_never_error (U : Universe) (P : Problem) (fuel : Nat) (s : S) (sched : List String) (g : Bool)
    (hs : Solvable U P) : ∀ c, (solveChecked U P fuel (withOrder s sched g)).1 ≠ .unsat c :=
  solveChecked_soft_never_error U P fuel _ hs

/-- when the first choices are mutually compatible, every completion order yields exactly them (C07 under C10) -/
theorem any_order_preferred (U : Universe) (P : Problem) (fuel : Nat) (s : S) (sched : List String) (g : Bool)
    (sol pref : List Nat) (hsoft : P.soft = []) (hpc : preferredConsistent U P = some pref)
    (h : (solveChecked U P fuel (withOrder s sched g)).1 = .ok sol) : ∀ x, x ∈ sol ↔ x ∈ pref :=
  solveChecked_preferred U P fuel _ sol pref hsoft hpc h

end Resolvo.C10
