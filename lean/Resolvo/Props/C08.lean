import Resolvo.Oracles
import Resolvo.Enc.ReferenceProofs
/-!
# C08 — direct requirements get their best candidate whenever that is possible

`bestDirectApplicable U P` decides the hypothesis ("all root requirements are single version sets
and some valid solution contains the first-ranked candidate of each simultaneously") with the
verified DPLL on the reference encoding extended by one unit clause per first choice.
Proved here: that extension is exact — the extended formula is satisfiable iff a valid selection
containing all the first choices exists.
-/
namespace Resolvo.C08
open Resolvo Resolvo.Sat

theorem evalCnf_units (a : Nat → Bool) (cs : List Nat) :
    evalCnf a (cs.map (fun c => [(c, true)])) = true ↔ ∀ c ∈ cs, a c = true := by
  simp [evalCnf, evalClause, evalLit, List.all_map, List.all_eq_true]

/-- satisfiability of the encoding plus units ⇔ a valid selection containing those solvables -/
theorem with_units_iff (U : Universe) (P : Problem) (hw : CandsKnown U) (fcs : List Nat)
    (hfc : ∀ c ∈ fcs, c ∈ U.allSolvs) :
    decideSat' (encodeAll U P.hard ++ fcs.map (fun c => [(c, true)])) = true ↔
      ∃ sel, Valid U P.hard sel [] ∧ ∀ c ∈ fcs, c ∈ sel := by
  rw [decideSat'_iff]
  constructor
  · rintro ⟨a, ha⟩
    rw [evalCnf_append, Bool.and_eq_true, evalCnf_units] at ha
    have hv := encodeAll_sel U P.hard hw a ha.1
    exact ⟨U.allSolvs.filter a, hv, fun c hc => List.mem_filter.mpr ⟨hfc c hc, ha.2 c hc⟩⟩
  · rintro ⟨sel, hv, hc⟩
    refine ⟨fun s => decide (s ∈ sel), ?_⟩
    rw [evalCnf_append, Bool.and_eq_true, evalCnf_units]
    exact ⟨encodeAll_of_valid U P.hard sel hv, fun c hcm => decide_eq_true (hc c hcm)⟩

end Resolvo.C08
