import Resolvo.Oracles
import Resolvo.Enc.ReferenceProofs
import Resolvo.MDet.CheckedProofs
/-!
# C08 — direct requirements get their best candidate whenever that is possible

`bestDirectApplicable U P` decides the hypothesis ("all root requirements are single version sets
and some valid solution contains the first-ranked candidate of each simultaneously") with the
verified DPLL on the reference encoding extended by one unit clause per first choice.
Proved here: that extension is exact — the extended formula is satisfiable iff a valid selection
containing all the first choices exists — and **the property itself** for every solver history that the
decision-guarded abstract system accepts (`best_direct_accepted`; the argument is in `Abs/BestDirect.lean`) and
for the checked model (`best_direct_checked`).
-/
namespace Resolvo.C08
open Resolvo Resolvo.Sat

theorem evalCnf_units (a : Nat → Bool) (cs : List Nat) :
    evalCnf a (cs.map (fun c => [(c, true)])) = true ↔ ∀ c ∈ cs, a c = true := by
  simp [evalCnf, evalClause, evalLit, List.all_map, List.all_eq_true]

/-- satisfiability of the encoding plus units ⇔ a valid selection containing those solvables -/
theorem with_units_iff (U : Universe) (P : Problem) (hw : CandsKnown U) (fcs : List Nat)
    (hfc : ∀ c ∈ fcs, c ∈ U.allSolvs) :
    decideSat' (encodeAll U P.hard ++ fcs.map (fun c => [(c, true)])) = true ↔
      ∃ sel, Valid U P.hard sel [] ∧ ∀ c ∈ fcs, c ∈ sel := by
  rw [decideSat'_iff]
  constructor
  · rintro ⟨a, ha⟩
    rw [evalCnf_append, Bool.and_eq_true, evalCnf_units] at ha
    have hv := encodeAll_sel U P.hard hw a ha.1
    exact ⟨U.allSolvs.filter a, hv, fun c hc => List.mem_filter.mpr ⟨hfc c hc, ha.2 c hc⟩⟩
  · rintro ⟨sel, hv, hc⟩
    refine ⟨fun s => decide (s ∈ sel), ?_⟩
    rw [evalCnf_append, Bool.and_eq_true, evalCnf_units]
    exact ⟨encodeAll_of_valid U P.hard sel hv, fun c hcm => decide_eq_true (hc c hcm)⟩

/-! ## The property itself -/

/-- provider contract: a listed candidate carries its package's name -/
def CandNames (U : Universe) : Prop := ∀ n p, U.pkg? n = some p → ∀ c ∈ p.cands, U.nameOf c = n

def candNamesB (U : Universe) : Bool := U.pkgs.all (fun np => np.2.cands.all (fun c => U.nameOf c == np.1))

theorem candNamesB_sound (U : Universe) (h : candNamesB U = true) : CandNames U := by
  intro n p hp c hc
  unfold candNamesB at h
  have hmem : (n, p) ∈ U.pkgs := mem_of_lookup _ _ _ hp
  have := List.all_eq_true.mp (List.all_eq_true.mp h (n, p) hmem) c hc
  simpa using this

theorem candsOf_sub (U : Universe) (vs c : Nat) (h : c ∈ U.candsOf vs) :
    ∃ p, U.pkg? (U.vsName vs) = some p ∧ c ∈ p.cands := by
  unfold Universe.candsOf at h
  rw [Universe.mem_reord] at h
  unfold Universe.pkgCands at h
  have hm := (List.mem_filter.mp h).1
  cases hp : U.pkg? (U.vsName vs) with
  | none => rw [hp] at hm; cases hm
  | some p => rw [hp] at hm; exact ⟨p, rfl, hm⟩

theorem filterMap_length_all {α β : Type} (f : α → Option β) (l : List α) (h : (l.filterMap f).length = l.length) :
    ∀ x ∈ l, ∃ y, f x = some y ∧ y ∈ l.filterMap f := by
  induction l with
  | nil => intro x hx; cases hx
  | cons a l ih =>
    cases ha : f a with
    | none =>
      simp only [List.filterMap_cons, ha, List.length_cons] at h
      have := List.length_filterMap_le f l
      omega
    | some b =>
      simp only [List.filterMap_cons, ha, List.length_cons, Nat.add_right_cancel_iff] at h
      intro x hx
      rcases List.mem_cons.mp hx with h1 | h1
      · subst h1; exact ⟨b, ha, by simp [ha]⟩
      · obtain ⟨y, hy, hm⟩ := ih h x h1
        exact ⟨y, hy, by simp [ha, hm]⟩

/-- the executable hypothesis yields a witness for `BestHyp` -/
theorem bestHyp_of_applicable (U : Universe) (P : Problem) (hw : CandsKnown U) (hn : CandNames U) (fcs : List Nat)
    (h : bestDirectApplicable U P = some fcs) :
    (∃ sstar, Abs.BestHyp U P sstar) ∧ ∀ c ∈ fcs, ∃ r ∈ P.reqs, firstChoice U r = some c := by
  unfold bestDirectApplicable at h
  split at h
  · next hall =>
    simp only [] at h
    split at h
    · next hc =>
      cases h
      simp only [Bool.and_eq_true, beq_iff_eq] at hc
      have hsome := filterMap_length_all (firstChoice U) P.reqs hc.1
      have hsingle : ∀ r ∈ P.reqs, ∃ vs, r = .single vs := by
        intro r hr
        have := List.all_eq_true.mp hall r hr
        cases r with
        | single vs => exact ⟨vs, rfl⟩
        | union u => cases this
      have hfcs : ∀ c ∈ P.reqs.filterMap (firstChoice U), c ∈ U.allSolvs := by
        intro c hcm
        obtain ⟨r, hr, hfc⟩ := List.mem_filterMap.mp hcm
        obtain ⟨vs, rfl⟩ := hsingle r hr
        obtain ⟨p, hp, hcp⟩ := candsOf_sub U vs c (Abs.firstChoice_mem U vs c hfc)
        exact hw _ p hp c hcp
      obtain ⟨sstar, hv, hsub⟩ := (with_units_iff U P hw _ hfcs).mp hc.2
      refine ⟨⟨sstar, hv, hsingle, ?_, ?_⟩, ?_⟩
      · intro r hr
        obtain ⟨c, hfc, hm⟩ := hsome r hr
        exact ⟨c, hfc, hsub c hm⟩
      · intro vs c hcm
        obtain ⟨p, hp, hcp⟩ := candsOf_sub U vs c hcm
        exact hn _ p hp c hcp
      · intro c hcm
        obtain ⟨r, hr, hfc⟩ := List.mem_filterMap.mp hcm
        exact ⟨r, hr, hfc⟩
    · cases h
  · cases h

/-- **C08 for every decision-guarded accepted history.** Whenever the hypothesis holds (decided exactly by
    `bestDirectApplicable`), a history accepted by `Abs.runOptD` that ends in a valid solution ends in a solution that
    contains the first-ranked candidate of every root requirement: conflicts below the direct requirements, learning and
    backjumps past the root-requirement decisions never downgrade a direct requirement. -/
theorem best_direct_accepted (U : Universe) (P : Problem) (hsoft : P.soft = []) (hw : CandsKnown U) (hn : CandNames U)
    (fcs : List Nat) (happ : bestDirectApplicable U P = some fcs) (evs : List Abs.Event) (st : Abs.St)
    (hrun : Abs.runOptD U P evs = some st) (sol : List Nat) (hsol : sol = st.trueSolvables)
    (hvalid : Valid U P sol []) : ∀ c ∈ fcs, c ∈ sol := by
  obtain ⟨⟨sstar, hb⟩, hf⟩ := bestHyp_of_applicable U P hw hn fcs happ
  intro c hc
  obtain ⟨r, hr, hfc⟩ := hf c hc
  exact Abs.best_direct U P hsoft sstar hb evs st hrun sol hsol hvalid r hr c hfc

/-- **C08 for the checked model** (all universes / problems without soft requirements / solver states / fuel). -/
theorem best_direct_checked (U : Universe) (P : Problem) (fuel : Nat) (s : MDet.S) (sol : List Nat)
    (hsoft : P.soft = []) (hw : CandsKnown U) (hn : CandNames U) (fcs : List Nat)
    (happ : bestDirectApplicable U P = some fcs)
    (h : (MDet.solveChecked U P fuel s).1 = .ok sol) : ∀ c ∈ fcs, c ∈ sol := by
  obtain ⟨⟨sstar, hb⟩, hf⟩ := bestHyp_of_applicable U P hw hn fcs happ
  intro c hc
  obtain ⟨r, hr, hfc⟩ := hf c hc
  exact MDet.solveChecked_best_direct U P fuel s sol sstar hsoft hb h r hr c hfc

/-! Non-vacuity: package 1 = {10}, package 2 = {20 (rank 0), 21 (rank 1)}; the root requires package 1, 10 requires
    package 2. The hypothesis holds with first choices [10]; the history below — the root requirement is settled by
    propagation at level 1, then a decision on a requirement of solvable 10 — is accepted, and a decision on 10's
    requirement *before* the root requirement has a true candidate is rejected by the explicit-first guard. -/
def exU : Universe :=
  { pkgs := [(1, { cands := [10] }), (2, { cands := [20, 21] })],
    solvs := [(10, ⟨1, 0, .known [.single 2] []⟩), (20, ⟨2, 0, .known [] []⟩), (21, ⟨2, 1, .known [] []⟩)],
    vsets := [(1, ⟨1, [10]⟩), (2, ⟨2, [20, 21]⟩)] }
def exP : Problem := { reqs := [.single 1] }

example : bestDirectApplicable exU exP = some [10] := by decide
example : (Abs.runOptD exU exP
    [.clause 0 .root [], .assign 0 true 1 0, .var 1 (.solvable 10), .clause 1 (.requires 0 (.single 1)) [[1]],
     .assign 1 true 1 1, .var 2 (.solvable 20), .var 3 (.solvable 21), .clause 2 (.requires 1 (.single 2)) [[2, 3]],
     .assign 2 true 2 2]).map (·.trueSolvables) = some [10, 20] := by decide

end Resolvo.C08
