import Resolvo.CacheProofs
import Resolvo.Oracles
/-!
# C07 — when the preferred candidates are mutually compatible, exactly they are selected

`preferredConsistent U P` (Oracles.lean) is the property's hypothesis made executable: the closure
of first choices (favored first, then `sort_candidates` order, union members in listed order) is a
valid selection in which each requirement is met only by its own first choice; the check compares
the implementation's solution with that closure on every generated conflict-free case.
Proved here: what "first choice" is — the favored candidate when it matches, else the best-ranked
matching candidate; for a union the first non-empty member decides.
-/
namespace Resolvo.C07
open Resolvo

theorem head_favoredFirst (f : Nat) (l : List Nat) (h : f ∈ l) : (favoredFirst (some f) l).head? = some f := by
  obtain ⟨pre, post, hl, hpre⟩ := List.eq_append_cons_of_mem h
  rw [hl, favoredFirst_split f pre post hpre]; rfl

/-- a matching favored candidate is the first choice of a single-version-set requirement -/
theorem firstChoice_favored (U : Universe) (vs f : Nat) (hf : pkgFavored U vs = some f)
    (hm : f ∈ U.candsOf vs) : firstChoice U (.single vs) = some f := by
  unfold firstChoice reqSorted Universe.reqVersionSets
  simp only [List.flatMap_cons, List.flatMap_nil, List.append_nil]
  unfold sortedCands
  rw [hf]
  exact head_favoredFirst f _ ((mem_rankSort U f _).mpr hm)

/-- without a (matching) favored candidate the first choice is the head of the provider's order,
    and it is a matching candidate of minimal rank -/
theorem firstChoice_ranked (U : Universe) (vs c : Nat)
    (hnf : pkgFavored U vs = none ∨ ∃ f, pkgFavored U vs = some f ∧ f ∉ U.candsOf vs)
    (hc : firstChoice U (.single vs) = some c) :
    c ∈ U.candsOf vs ∧ ∀ d ∈ U.candsOf vs, U.rank c ≤ U.rank d := by
  unfold firstChoice reqSorted Universe.reqVersionSets at hc
  simp only [List.flatMap_cons, List.flatMap_nil, List.append_nil] at hc
  have hs : sortedCands U vs = rankSort U (U.candsOf vs) := by
    unfold sortedCands
    rcases hnf with h | ⟨f, hf, hn⟩
    · rw [h]; rfl
    · rw [hf]; exact favoredFirst_not_mem f _ (fun hm => hn ((mem_rankSort U f _).mp hm))
  rw [hs] at hc
  have hsorted := rankSort_sorted U (U.candsOf vs)
  cases hl : rankSort U (U.candsOf vs) with
  | nil => rw [hl] at hc; cases hc
  | cons x xs =>
    rw [hl] at hc hsorted
    simp only [List.head?_cons, Option.some.injEq] at hc
    subst hc
    have hx : x ∈ U.candsOf vs := (mem_rankSort U x _).mp (by rw [hl]; exact List.mem_cons_self)
    refine ⟨hx, ?_⟩
    intro d hd
    have hdm : d ∈ x :: xs := by rw [← hl]; exact (mem_rankSort U d _).mpr hd
    rcases List.mem_cons.mp hdm with rfl | hdm
    · exact Nat.le_refl _
    · unfold RankSorted at hsorted
      exact (List.pairwise_cons.mp hsorted).1 d hdm

/-- union members are tried in their listed order: the candidate list is the concatenation -/
theorem union_order (U : Universe) (u : Nat) :
    reqSorted U (.union u) = (U.unionOf u).flatMap (sortedCands U) := rfl

end Resolvo.C07
