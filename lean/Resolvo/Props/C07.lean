import Resolvo.CacheProofs
import Resolvo.Oracles
import Resolvo.MDet.CheckedProofs
import Resolvo.MDet.EncSound
/-!
# C07 — when the preferred candidates are mutually compatible, exactly they are selected

`preferredConsistent U P` (Oracles.lean) is the property's hypothesis made executable: the closure
of first choices (favored first, then `sort_candidates` order, union members in listed order) is a
valid selection in which each requirement is met only by its own first choice; the check compares
the implementation's solution with that closure on every generated conflict-free case.
Proved here: what "first choice" is — the favored candidate when it matches, else the best-ranked
matching candidate; for a union the first non-empty member decides.
-/
namespace Resolvo.C07
open Resolvo

theorem head_favoredFirst (f : Nat) (l : List Nat) (h : f ∈ l) : (favoredFirst (some f) l).head? = some f := by
  obtain ⟨pre, post, hl, hpre⟩ := List.eq_append_cons_of_mem h
  rw [hl, favoredFirst_split f pre post hpre]; rfl

/-- a matching favored candidate is the first choice of a single-version-set requirement -/
theorem firstChoice_favored (U : Universe) (vs f : Nat) (hf : pkgFavored U vs = some f)
    (hm : f ∈ U.candsOf vs) : firstChoice U (.single vs) = some f := by
  unfold firstChoice reqSorted Universe.reqVersionSets
  simp only [List.flatMap_cons, List.flatMap_nil, List.append_nil]
  unfold sortedCands
  rw [hf]
  exact head_favoredFirst f _ ((mem_rankSort U f _).mpr hm)

/-- without a (matching) favored candidate the first choice is the head of the provider's order,
    and it is a matching candidate of minimal rank -/
theorem firstChoice_ranked (U : Universe) (vs c : Nat)
    (hnf : pkgFavored U vs = none ∨ ∃ f, pkgFavored U vs = some f ∧ f ∉ U.candsOf vs)
    (hc : firstChoice U (.single vs) = some c) :
    c ∈ U.candsOf vs ∧ ∀ d ∈ U.candsOf vs, U.rank c ≤ U.rank d := by
  unfold firstChoice reqSorted Universe.reqVersionSets at hc
  simp only [List.flatMap_cons, List.flatMap_nil, List.append_nil] at hc
  have hs : sortedCands U vs = rankSort U (U.candsOf vs) := by
    unfold sortedCands
    rcases hnf with h | ⟨f, hf, hn⟩
    · rw [h]; rfl
    · rw [hf]; exact favoredFirst_not_mem f _ (fun hm => hn ((mem_rankSort U f _).mp hm))
  rw [hs] at hc
  have hsorted := rankSort_sorted U (U.candsOf vs)
  cases hl : rankSort U (U.candsOf vs) with
  | nil => rw [hl] at hc; cases hc
  | cons x xs =>
    rw [hl] at hc hsorted
    simp only [List.head?_cons, Option.some.injEq] at hc
    subst hc
    have hx : x ∈ U.candsOf vs := (mem_rankSort U x _).mp (by rw [hl]; exact List.mem_cons_self)
    refine ⟨hx, ?_⟩
    intro d hd
    have hdm : d ∈ x :: xs := by rw [← hl]; exact (mem_rankSort U d _).mpr hd
    rcases List.mem_cons.mp hdm with rfl | hdm
    · exact Nat.le_refl _
    · unfold RankSorted at hsorted
      exact (List.pairwise_cons.mp hsorted).1 d hdm

/-- union members are tried in their listed order: the candidate list is the concatenation -/
theorem union_order (U : Universe) (u : Nat) :
    reqSorted U (.union u) = (U.unionOf u).flatMap (sortedCands U) := rfl

/-! ## The property itself

`preferred_exact_accepted`: for every universe and problem without soft requirements whose first choices are
mutually compatible (`preferredConsistent U P = some pref`), **every** solver history that the decision-guarded
abstract system accepts (`Abs.runOptD`: provenance of clauses, unit propagation with reasons, RUP-checked learnt
clauses, and decisions that pick the first undecided candidate — in `SolverCache` order — of an unsatisfied
requirement of a selected solvable) and that ends in a valid solution ends in exactly `pref`. The real solver's
history is submitted to `runOptD` on every generated case (tag `mdet-decide-guard`), and so is the model's
(`solveChecked`), for which the statement holds with no further hypothesis: `preferred_exact_checked`. -/

theorem preferred_exact_accepted (U : Universe) (P : Problem) (hsoft : P.soft = []) (pref : List Nat)
    (hpc : preferredConsistent U P = some pref) (evs : List Abs.Event) (st : Abs.St)
    (hrun : Abs.runOptD U P evs = some st) (sol : List Nat) (hsol : sol = st.trueSolvables)
    (hvalid : Valid U P sol []) : ∀ s, s ∈ sol ↔ s ∈ pref :=
  Abs.preferred_exact U P hsoft pref hpc evs st hrun sol hsol hvalid

theorem preferred_exact_checked (U : Universe) (P : Problem) (fuel : Nat) (s : MDet.S) (sol pref : List Nat)
    (hsoft : P.soft = []) (hpc : preferredConsistent U P = some pref)
    (h : (MDet.solveChecked U P fuel s).1 = .ok sol) : ∀ x, x ∈ sol ↔ x ∈ pref :=
  MDet.solveChecked_preferred U P fuel s sol pref hsoft hpc h

/-- no solvable outside the preferred selection is ever true on the trail of an accepted history — also in the
    middle of the search (the solver never even *tries* anything else when the first choices are compatible) -/
theorem never_tries_anything_else (U : Universe) (P : Problem) (hsoft : P.soft = []) (pref : List Nat)
    (hpc : preferredConsistent U P = some pref) (evs : List Abs.Event) (st : Abs.St)
    (hrun : Abs.runOptD U P evs = some st) (e : Abs.Entry) (he : e ∈ st.trail) (hv : e.val = true)
    (s : Nat) (hs : st.solvOf e.var = some s) : s ∈ pref :=
  Abs.accepted_entry_in_pref U P hsoft pref (Abs.prefHyp_of_consistent U P pref hpc).1 evs st hrun e he hv s hs

/-! Non-vacuity: package 1 = {10 (rank 0), 11 (rank 1)}, package 2 = {20}; root requires vs 1 (any of package 1);
    10 requires vs 2 (any of package 2). The preferred closure is [10, 20] and the history below is accepted. -/
def exU : Universe :=
  { pkgs := [(1, { cands := [10, 11] }), (2, { cands := [20] })],
    solvs := [(10, ⟨1, 0, .known [.single 2] []⟩), (11, ⟨1, 1, .known [] []⟩), (20, ⟨2, 0, .known [] []⟩)],
    vsets := [(1, ⟨1, [10, 11]⟩), (2, ⟨2, [20]⟩)] }
def exP : Problem := { reqs := [.single 1] }
def exHistory : List Abs.Event :=
  [.clause 0 .root [], .assign 0 true 1 0, .var 1 (.solvable 10), .var 2 (.solvable 11),
   .clause 1 (.requires 0 (.single 1)) [[1, 2]], .assign 1 true 2 1,
   .var 3 (.solvable 20), .clause 2 (.requires 1 (.single 2)) [[3]], .assign 3 true 2 2]

example : preferredConsistent exU exP = some [10, 20] := by decide
example : (Abs.runOptD exU exP exHistory).map (·.trueSolvables) = some [10, 20] := by decide
-- and the guard is not vacuous: deciding the second-ranked candidate first is rejected
example : Abs.runOptD exU exP
    [.clause 0 .root [], .assign 0 true 1 0, .var 1 (.solvable 10), .var 2 (.solvable 11),
     .clause 1 (.requires 0 (.single 1)) [[1, 2]], .assign 2 true 2 1] = none := by decide

/-- **The exact model keeps the provider's preference order in its clauses** (no checker in between; every universe meeting the
    provider contract, problem, fuel, solver state, synchronous or asynchronous): after a solve, the positive literals of every
    requires clause of the model — read the way its `decide` and propagation read them — stand, in clause order, for exactly
    the sorted candidates of the requirement's version sets (`sort_candidates` order with the favored candidate first, union
    members in the order the provider lists them). The decision rule "first undecided candidate in clause order" is
    therefore "first undecided candidate in the provider's preference order". -/
theorem clause_order_exact_model (U : Universe) (hU : MDet.WFU U) (P : Problem) (fuel : Nat) (s0 : MDet.S) :
    ∀ c ∈ (MDet.solveRun U P fuel s0).2.clauses.toList, ∀ p r, c.kind = .requires p r →
      ∃ vars : List Nat, MDet.clauseLits (MDet.solveRun U P fuel s0).2 c = (p, false) :: vars.map (fun v => (v, true)) ∧
        vars.filterMap (Abs.oSolv (MDet.solveRun U P fuel s0).2.origins) = reqSorted U r :=
  MDet.model_requires_order U hU P fuel s0

/-- **The cached candidate variables of a requirement are exactly its candidates** (exact model of
    `requirement_to_sorted_candidates`, every universe meeting the provider contract, problem, fuel and solver state,
    sync and async): after any solve, the variables cached for a requirement stand for candidates of that requirement
    only, and every candidate of the requirement has a variable among them — `decide()` never misses a candidate and
    never tries a solvable that does not match. (`clause_order_exact_model` adds that they come in preference order.) -/
theorem requirement_cache_exact (U : Universe) (hU : MDet.WFU U) (P : Problem) (fuel : Nat) (s0 : MDet.S) (r : Req)
    (vsVars : List (List Nat)) (h : (MDet.solveRun U P fuel s0).2.reqCands.lookup r = some vsVars) :
    (∀ v ∈ vsVars.flatten, ∃ c, Abs.oSolv (MDet.solveRun U P fuel s0).2.origins v = some c ∧ c ∈ U.reqCands r) ∧
    (∀ c ∈ U.reqCands r, ∃ v ∈ vsVars.flatten, Abs.oSolv (MDet.solveRun U P fuel s0).2.origins v = some c) :=
  (MDet.solveRun_tinv U hU P fuel s0).extra.cache r vsVars h

end Resolvo.C07
