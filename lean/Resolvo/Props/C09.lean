import Resolvo.Oracles
import Resolvo.CacheModel
import Resolvo.Props.C20
/-!
# C09 — metadata is fetched lazily, causally and at most once

`causalCheck` (Oracles.lean) walks the provider call log of a run and accepts it only if every
`get_dependencies s` is for a soft requirement or a matching candidate of a requirement obtained
earlier (the root's or a previously fetched solvable's), every `get_candidates n` is for a name
mentioned by dependency information obtained earlier, and no call repeats. On the conflict-free
family the fetched solvables must be exactly the preferred closure (C07).
Proved here (cache level): a repeated cache query never reaches the provider.
-/
namespace Resolvo.C09
open Resolvo Resolvo.CacheM

theorem at_most_once_cache (U : Universe) (peek : Bool) (st : St) :
    (∀ n, (step U peek (step U peek st (.candidates n)).1 (.candidates n)).1.log = (step U peek st (.candidates n)).1.log) ∧
    (∀ s, (step U peek (step U peek st (.deps s)).1 (.deps s)).1.log = (step U peek st (.deps s)).1.log) :=
  Resolvo.C20.repeat_no_call U peek st

end Resolvo.C09
