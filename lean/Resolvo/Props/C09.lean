import Resolvo.Oracles
import Resolvo.CacheModel
import Resolvo.Props.C20
import Resolvo.MDet.OnceSpec
import Resolvo.MDet.Causal
/-!
# C09 — metadata is fetched lazily, causally and at most once

`causalCheck` (Oracles.lean) walks the provider call log of a run and accepts it only if every
`get_dependencies s` is for a soft requirement or a matching candidate of a requirement obtained
earlier (the root's or a previously fetched solvable's), every `get_candidates n` is for a name
mentioned by dependency information obtained earlier, and no call repeats. On the conflict-free
family the fetched solvables must be exactly the preferred closure (C07).
Proved here: (cache level) a repeated cache query never reaches the provider; (run level, the whole model of
`solve`, every history of solves on one solver with a synchronous provider) no `get_candidates` / `get_dependencies`
request is ever issued twice, and whatever was requested is in the cache afterwards.
-/
namespace Resolvo.C09
open Resolvo Resolvo.CacheM

theorem at_most_once_cache (U : Universe) (peek : Bool) (st : St) :
    (∀ n, (step U peek (step U peek st (.candidates n)).1 (.candidates n)).1.log = (step U peek st (.candidates n)).1.log) ∧
    (∀ s, (step U peek (step U peek st (.deps s)).1 (.deps s)).1.log = (step U peek st (.deps s)).1.log) :=
  Resolvo.C20.repeat_no_call U peek st

/-! ## Run level: at most once per solver -/
open Resolvo.MDet in
/-- a solver that has not issued a request yet (any cancellation plan, activity parameters, …) meets the invariant -/
theorem fresh_once (s : S) (h1 : s.asyncMode = false) (h2 : s.glog = []) : Once s :=
  ⟨h1, by rw [h2]; exact List.Pairwise.nil, by (intro n h; rw [h2] at h; cases h), by (intro n h; rw [h2] at h; cases h)⟩

open Resolvo.MDet in
/-- **At most once per solver.** Along every history of solves on one solver (any problems, any outcomes including
    Cancelled and Unsolvable, any cancellation plans, any fuel) with a synchronous provider, the requests in the call
    log are pairwise distinct: `get_candidates` is never issued twice for a package nor `get_dependencies` twice for a
    solvable — and everything that was requested is answered from the cache from then on. -/
theorem history_at_most_once (U : Universe) (fuel : Nat) (ps : List Problem) (s : S) (h : Once s) :
    Once (ps.foldl (fun st p => (solveRun U p fuel st).2) s) := by
  induction ps generalizing s with
  | nil => exact h
  | cons p ps ih => exact ih _ (solveRun_once U p fuel s h)

open Resolvo.MDet in
theorem no_request_twice (U : Universe) (fuel : Nat) (ps : List Problem) (s : S) (h1 : s.asyncMode = false) (h2 : s.glog = []) :
    (callsOf (ps.foldl (fun st p => (solveRun U p fuel st).2) s).glog).Nodup :=
  (history_at_most_once U fuel ps s (fresh_once s h1 h2)).nodup

/-! ## Run level: candidates are requested causally -/
open Resolvo.MDet Resolvo.MDet.Causal in
/-- **`get_candidates` only for names that obtained dependencies mention** (second sentence of C09, candidates half; the
    whole model of `solve`, synchronous and asynchronous provider under every completion order; every universe, problem, fuel and solver state carried over from
    earlier solves, with or without hints, whatever the outcome): every package whose candidates were requested during a
    solve (`issuedCands`, which the driver checks to be the `c<n>` entries of the call log compared with the implementation's)
    is named by a requirement (any member of a union) or a constrains entry of the root or of a solvable whose
    dependencies are in the cache. The invariant `KInv` is maintained by every function of the model (`MDet/Causal.lean`),
    so at the moment of the request the dependencies had been obtained. -/
theorem candidates_requested_causally (U : Universe) (P : Problem) (fuel : Nat) (s : S) :
    ∀ n ∈ (solveRun U P fuel s).2.issuedCands, ∃ sid : Option Nat,
      (match sid with | none => True | some sv => sv ∈ (solveRun U P fuel s).2.fetchedDeps) ∧
      ∃ reqs cons, sidDeps U P sid = some (reqs, cons) ∧
        ((∃ r ∈ reqs, ∃ vs ∈ U.reqVersionSets r, U.vsName vs = n) ∨ ∃ vs ∈ cons, U.vsName vs = n) := by
  intro n hn
  obtain ⟨sid, h1, h2⟩ := (solveRun_kinv U P fuel s).cands n hn
  refine ⟨sid, ?_, h2⟩
  cases sid with
  | none => trivial
  | some sv => exact h1

open Resolvo.MDet Resolvo.MDet.Causal in
/-- and what remains queued is causal too: a requirement / constraint is only ever looked at for a solvable whose dependencies
    have been obtained and that really has it -/
theorem queued_tasks_causal (U : Universe) (P : Problem) (fuel : Nat) (s : S) :
    ∀ t ∈ (solveRun U P fuel s).2.queue, KTask U P (solveRun U P fuel s).2 t :=
  (solveRun_kinv U P fuel s).queue

/-- non-vacuity: the default solver state is fresh -/
example : Resolvo.MDet.Once {} := fresh_once {} rfl rfl

end Resolvo.C09
