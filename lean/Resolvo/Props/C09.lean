import Resolvo.Oracles
import Resolvo.CacheModel
import Resolvo.Props.C20
import Resolvo.MDet.OnceSpec
/-!
# C09 — metadata is fetched lazily, causally and at most once

`causalCheck` (Oracles.lean) walks the provider call log of a run and accepts it only if every
`get_dependencies s` is for a soft requirement or a matching candidate of a requirement obtained
earlier (the root's or a previously fetched solvable's), every `get_candidates n` is for a name
mentioned by dependency information obtained earlier, and no call repeats. On the conflict-free
family the fetched solvables must be exactly the preferred closure (C07).
Proved here: (cache level) a repeated cache query never reaches the provider; (run level, the whole model of
`solve`, every history of solves on one solver with a synchronous provider) no `get_candidates` / `get_dependencies`
request is ever issued twice, and whatever was requested is in the cache afterwards.
-/
namespace Resolvo.C09
open Resolvo Resolvo.CacheM

theorem at_most_once_cache (U : Universe) (peek : Bool) (st : St) :
    (∀ n, (step U peek (step U peek st (.candidates n)).1 (.candidates n)).1.log = (step U peek st (.candidates n)).1.log) ∧
    (∀ s, (step U peek (step U peek st (.deps s)).1 (.deps s)).1.log = (step U peek st (.deps s)).1.log) :=
  Resolvo.C20.repeat_no_call U peek st

/-! ## Run level: at most once per solver -/
open Resolvo.MDet in
/-- a solver that has not issued a request yet (any cancellation plan, activity parameters, …) meets the invariant -/
theorem fresh_once (s : S) (h1 : s.asyncMode = false) (h2 : s.glog = []) : Once s :=
  ⟨h1, by rw [h2]; exact List.Pairwise.nil, by (intro n h; rw [h2] at h; cases h), by (intro n h; rw [h2] at h; cases h)⟩

open Resolvo.MDet in
/-- **At most once per solver.** Along every history of solves on one solver (any problems, any outcomes including
    Cancelled and Unsolvable, any cancellation plans, any fuel) with a synchronous provider, the requests in the call
    log are pairwise distinct: `get_candidates` is never issued twice for a package nor `get_dependencies` twice for a
    solvable — and everything that was requested is answered from the cache from then on. -/
theorem history_at_most_once (U : Universe) (fuel : Nat) (ps : List Problem) (s : S) (h : Once s) :
    Once (ps.foldl (fun st p => (solveRun U p fuel st).2) s) := by
  induction ps generalizing s with
  | nil => exact h
  | cons p ps ih => exact ih _ (solveRun_once U p fuel s h)

open Resolvo.MDet in
theorem no_request_twice (U : Universe) (fuel : Nat) (ps : List Problem) (s : S) (h1 : s.asyncMode = false) (h2 : s.glog = []) :
    (callsOf (ps.foldl (fun st p => (solveRun U p fuel st).2) s).glog).Nodup :=
  (history_at_most_once U fuel ps s (fresh_once s h1 h2)).nodup

/-- non-vacuity: the default solver state is fresh -/
example : Resolvo.MDet.Once {} := fresh_once {} rfl rfl

end Resolvo.C09
