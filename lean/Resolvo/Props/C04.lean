import Resolvo.Sat.Dpll
import Resolvo.Abs.Logic
/-!
# C04 — solve and conflict rendering always terminate without panicking

Proved so far (all loops of the model are structurally recursive, so they terminate by
construction, and Lean's termination checker is the proof): the verified procedures the check runs
on every implementation outcome. The statement "the implementation's `solve` terminates without
panicking on every well-formed input" is decided per run by the harness (catch_unwind per case,
panic location reported, per-case watchdog for hangs, address-space limit for runaway output) in
builds with and without debug assertions; the universal claim about the search loop is listed as
not proved (DESIGN §6 C04 (d)).
-/
namespace Resolvo.C04
open Resolvo.Sat

/-- the DPLL oracle terminates with a definite answer on every formula (it is a total function) and
    the answer is right -/
theorem oracle_total (f : Cnf) : (decideSat' f = true ∨ decideSat' f = false) ∧
    (decideSat' f = true ↔ ∃ a, evalCnf a f = true) :=
  ⟨by cases decideSat' f <;> simp, decideSat'_iff f⟩

end Resolvo.C04
