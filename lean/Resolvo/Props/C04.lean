import Resolvo.Sat.Dpll
import Resolvo.Abs.Logic
import Resolvo.RenderProofs
/-!
# C04 — solve and conflict rendering always terminate without panicking

Proved so far (all loops of the model are structurally recursive, so they terminate by
construction, and Lean's termination checker is the proof): the verified procedures the check runs
on every implementation outcome. The statement "the implementation's `solve` terminates without
panicking on every well-formed input" is decided per run by the harness (catch_unwind per case,
panic location reported, per-case watchdog for hangs, address-space limit for runaway output) in
builds with and without debug assertions; the universal claim about the search loop is listed as
not proved (DESIGN §6 C04 (d)).

**Conflict rendering.** `Render.lean` models `Conflict::graph` with petgraph's index and iteration order,
`simplify`, `get_installable_set`, `get_missing_set` and `DisplayUnsat`; the model's message equals the real one byte
for byte on every generated conflict (tag `mdet-message`). Proved here for **every** conflict graph, cyclic or not:
the rendering loop terminates (`message_rendering_terminates`) and writes a number of lines bounded by the size of
the graph (`message_lines_bounded`).
-/
namespace Resolvo.C04
open Resolvo.Sat

/-- the DPLL oracle terminates with a definite answer on every formula (it is a total function) and
    the answer is right -/
theorem oracle_total (f : Cnf) : (decideSat' f = true ∨ decideSat' f = false) ∧
    (decideSat' f = true ↔ ∃ a, evalCnf a f = true) :=
  ⟨by cases decideSat' f <;> simp, decideSat'_iff f⟩

open Resolvo.Render in
/-- **The user-friendly message is produced for every conflict graph**: the model of `DisplayUnsat` never runs out of
    its fuel, whatever the shape of the graph (requirement cycles, merged candidates, …). The argument is a potential
    function (`RenderProofs.stepOp_decreases`): every iteration of the `while let Some(..) = stack.pop()` loop either
    marks a not yet reported solvable as reported or shrinks the stack's weight. The defect repaired in 5039a4b
    (`reported` filled for merged candidates only) and the seeded change C04-e violate exactly this decrease. -/
theorem message_rendering_terminates (U : Universe) (g : RG) : (render U g).isSome = true := render_total U g

open Resolvo.Render in
/-- **Output bounded by the size of the conflict**: each call of `fmt_graph` writes at most
    `renderFuel · (|edges| + 1)` lines, where `renderFuel ≤ (|nodes| + 1) · (3·|edges| + 3) + 3·|edges| + 1`-ish is
    the initial potential — polynomial in the graph, independent of cycles. -/
theorem message_lines_bounded (U : Universe) (g : RG) (inst : List Nat) (topEdges : List Nat) (topIndent : Bool) :
    ∃ out, fmtGraph { U := U, g := g, merged := simplify U g, inst := inst } topEdges topIndent = some out ∧
      out.length ≤ renderFuel g ((setFirstLast ((sortGroups { U := U, g := g, merged := simplify U g, inst := inst }
        (chunkReq g topEdges)).map (fun grp => (Op.req grp.1 grp.2, ({ top := topIndent } : Ind).push)))).reverse) * (g.edges.size + 1) :=
  fmtGraph_terminates U g inst topEdges topIndent

end Resolvo.C04
