import Resolvo.SpecProofs
import Resolvo.Abs.Fail
/-!
# C01 — every returned solution satisfies all requirements, constraints and exclusions

`Valid` (Spec.lean) is the property's statement: root requirements and constraints, every
selected solvable's requirements and constrains (candidates as listed by `get_candidates` and
filtered by `filter_candidates`; a union is met by a candidate of any member), no excluded /
Unknown-dependency / locked-out solvable except the directly named soft requirements, one
solvable per package name.

Proved here: the executable checker `validB`, which the check evaluates on **every** answer the
implementation returns (sync and async, all hint patterns, debug and release builds), decides
`Valid` exactly — so a reported violation is a genuine counterexample and a passing run means
every explored answer satisfied the full statement. The universal statement about the search
itself ("for all inputs the model of `solve` returns only valid selections") is the refinement
obligation of DESIGN §3.6; see the evidence file for what is proved vs checked per run.
-/
namespace Resolvo.C01
open Resolvo

/-- the oracle is exact -/
theorem valid_decided (U : Universe) (P : Problem) (sel exempt : List Nat) :
    validB U P sel exempt = true ↔ Valid U P sel exempt := validB_iff U P sel exempt

/-- the four conjuncts, spelled out as the property text has them -/
theorem valid_unfold (U : Universe) (P : Problem) (sel exempt : List Nat) (h : Valid U P sel exempt) :
    (∀ r ∈ P.reqs, ∃ c ∈ U.reqCands r, c ∈ sel) ∧
    (∀ vs ∈ P.constraints, ∀ t ∈ U.nonMatching vs, t ∉ sel) ∧
    (∀ s ∈ sel, ∃ reqs cons, U.deps s = .known reqs cons ∧
        (∀ r ∈ reqs, ∃ c ∈ U.reqCands r, c ∈ sel) ∧ (∀ vs ∈ cons, ∀ t ∈ U.nonMatching vs, t ∉ sel)) ∧
    (∀ s ∈ sel, s ∉ exempt → U.excluded s = false ∧ U.lockedOut s = false) ∧
    (∀ s ∈ sel, ∀ t ∈ sel, U.nameOf s = U.nameOf t → s = t) :=
  ⟨h.1.1, h.1.2, h.2.1, h.2.2.1, h.2.2.2⟩

/-- A selection accepted for the hard problem stays acceptable when soft requirements are
    exempted (the exemption only weakens the statement). -/
theorem valid_mono_exempt (U : Universe) (P : Problem) (sel e1 e2 : List Nat) (hsub : ∀ x ∈ e1, x ∈ e2)
    (h : Valid U P sel e1) : Valid U P sel e2 :=
  ⟨h.1, h.2.1, fun s hs hne => h.2.2.1 s hs (fun hm => hne (hsub s hm)), h.2.2.2⟩

/-! Non-vacuity: a concrete valid selection with a union requirement and a constrains entry. -/
def exU : Universe :=
  { pkgs := [(0, { cands := [0, 1] }), (1, { cands := [2] })],
    solvs := [(0, { name := 0, rank := 0, deps := .known [.single 2] [1] }),
              (1, { name := 0, rank := 1, deps := .known [] [] }),
              (2, { name := 1, rank := 0, deps := .known [] [] })],
    vsets := [(0, { name := 0, matching := [0, 1] }), (1, { name := 0, matching := [0] }), (2, { name := 1, matching := [2] })],
    unions := [(0, [1, 2])] }
example : validB exU { reqs := [.union 0, .single 0] } [0, 2] [] = true := by decide
example : validB exU { reqs := [.union 0, .single 0] } [1] [] = false := by decide

end Resolvo.C01
