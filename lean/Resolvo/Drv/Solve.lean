import Resolvo.Drv.Parse
import Resolvo.Oracles
import Resolvo.Drv.Trace
import Resolvo.Graph
import Resolvo.MDet.Checked
import Resolvo.MDet.Graph
import Resolvo.Abs.Decide
import Resolvo.Render
import Resolvo.RenderTruth
import Resolvo.MDet.ModelGraph
/-! Driver for the solver families: evaluates the oracles on the implementation's outputs. -/
namespace Resolvo.Drv
open Resolvo

def natList (l : List Nat) : String := " ".intercalate (l.map toString)

/-- Well-formedness of a generated universe (what the provider contract requires). -/
def wfB (U : Universe) : Bool :=
  candsKnownB U &&
  -- the provider contract the truthfulness theorems assume (C03.edges_truthful_exact_model)
  Resolvo.MDet.wfuB U &&
  -- every listed candidate carries the package's name
  U.pkgs.all (fun np => np.2.cands.all (fun c => U.nameOf c == np.1)) &&
  -- every solvable with a table entry is listed by its package (if the package exists)
  U.solvs.all (fun s => match U.pkg? s.2.name with | some p => p.cands.contains s.1 | none => true) &&
  -- candidates are listed once
  U.pkgs.all (fun np => np.2.cands.eraseDups.length == np.2.cands.length) &&
  -- favored / locked / excluded / hinted are candidates
  U.pkgs.all (fun np => (match np.2.favored with | some f => np.2.cands.contains f | none => true) &&
                        (match np.2.locked with | some f => np.2.cands.contains f | none => true) &&
                        np.2.excluded.all (fun e => np.2.cands.contains e.1) &&
                        (hintedBy np.2).all (fun h => np.2.cands.contains h))

/-- Replays the implementation's history through the abstract system. -/
def traceOracle (U : Universe) (P : Problem) (r : ImplSolve) : List String :=
  let events := parseTrace r.trace
  match Resolvo.Abs.runOpt U P events with
  | none =>
    (match Resolvo.Abs.run U P events with
     | .error (k, ev) => [s!"oracle-fail C01,C02,C03,C05,C15 trace: event {k} of the solver history is not a legal step of the abstract system: {repr ev}".replace "\n" " ",
        -- the theorems of C07 / C08 speak about accepted histories: a rejected one breaks their tie to the implementation
        s!"oracle-fail C07,C08 mdet-history-rejected: the solver history is not accepted by the abstract system (event {k}), so the theorems about accepted histories do not apply to this run"]
     | .ok _ => ["oracle-fail C01,C02,C03,C05,C15 trace: history rejected"])
  | some st =>
    if r.result == "unsat" && st.failed.isNone then
      ["oracle-fail C01,C02,C03,C05,C15 trace: Unsolvable reported without a root-level falsified clause in the history"]
    else
      -- C03: the clauses the Conflict blames must, on their own, refute the root
      let blamed := r.conflictClauses.map (fun c => (st.db.getD c default).lits)
      let o := if r.result == "unsat" && Resolvo.Sat.decideSat' ([(0, true)] :: blamed) then
          ["oracle-fail C03 blamed-clauses: the clauses recorded in the Conflict do not refute the root (an antecedent is missing)"]
        else if r.result == "unsat" && r.conflictClauses.any (fun c => match (st.db.getD c default).kind with | .learnt _ => true | _ => false) then
          ["oracle-fail C03 blamed-clauses: a learnt clause is reported instead of its antecedents"]
        else []
      -- refinement obligation R4: every decision of the history is one `decide` can produce (Abs/Decide.lean)
      let d := match Resolvo.Abs.runD U P events with
        | .error (k, ev) => [s!"oracle-fail C05,C07,C08 mdet-decide-guard: event {k} of the solver history is a decision that the decision rule cannot produce (not the first undecided candidate, in cache order, of an unsatisfied requirement of a selected solvable): {repr ev}".replace "\n" " "]
        | .ok _ => ["info decide-guard ok"]
      -- the conflict graph, its graphviz form and the user-friendly message: built by the exact model (Render.lean) from the
      -- state of the accepted history itself - the very object `C03.edges_truthful` / `C04.message_rendering_terminates`
      -- speak about - they must equal the real ones (edges as a set, the two texts byte for byte)
      let hexOf (s : String) : String := s.toUTF8.toList.foldl (fun acc b =>
        let dg (n : Nat) : Char := if n < 10 then Char.ofNat (48 + n) else Char.ofNat (87 + n)
        acc.push (dg (b.toNat / 16)) |>.push (dg (b.toNat % 16))) ""
      let msg := if r.result == "unsat" && !(r.graphNodes.isEmpty && r.graphEdges.isEmpty) then
          let kinds := r.conflictClauses.map (fun cid => (st.db.getD cid default).kind)
          let rg := Resolvo.Render.buildGraph U st.origins kinds
          let rge := Resolvo.MDet.sortStr ((Resolvo.Render.nodeEdges rg).map (fun x => Resolvo.MDet.edgeStr ⟨x.1, x.2.1, x.2.2⟩))
          if rge != r.graphEdges then
            [s!"oracle-fail C03,C06 mdet-graph: the ordered graph model has other edges: implementation [{" ".intercalate r.graphEdges}] model [{" ".intercalate rge}]"]
          else
          let gvImpl := (r.other.find? (fun l => l.startsWith "graphviz-hex ")).map (fun l => (l.drop 13).toString)
          if gvImpl.isSome && gvImpl != some (hexOf (Resolvo.Render.graphviz U rg)) then
            [s!"oracle-fail C04,C06 mdet-graphviz: the graphviz form differs: implementation `{gvImpl.getD ""}` model `{hexOf (Resolvo.Render.graphviz U rg)}`"]
          else if r.message.isEmpty || r.message.startsWith "panic" then []
          else
          match Resolvo.Render.render U rg with
          | some text =>
            if hexOf text == r.message then ["info mdet-message 1"]
            else [s!"oracle-fail C04,C06 mdet-message: the user-friendly conflict message differs: implementation `{r.message}` model `{hexOf text}`"]
          | none => ["oracle-fail C04 mdet-message-fuel: the model of the message renderer ran out of fuel"]
        else []
      o ++ d ++ msg ++ [s!"info trace-accepted events {events.length} clauses {st.db.length}"]

open Resolvo.Graph in
def parseNode (s : String) : Node :=
  if s == "root" then .root
  else if s == "unresolved" then .unresolved
  else if s.startsWith "excl" then .excl (nat! (s.drop 4).toString)
  else .solv (nat! (s.drop 1).toString)

open Resolvo.Graph in
/-- `s15>s10:req:v10` -/
def parseEdge (s : String) : Option Edge :=
  match s.splitOn ">" with
  | [a, rest] =>
    (match rest.splitOn ":" with
     | [b, "req", r] => some ⟨parseNode a, parseNode b, .req (parseReq r)⟩
     | [b, "constrains", v] => some ⟨parseNode a, parseNode b, .constrains (nat! v)⟩
     | [b, "locked", l] => some ⟨parseNode a, parseNode b, .locked (nat! l)⟩
     | [b, "forbid"] => some ⟨parseNode a, parseNode b, .forbid⟩
     | [b, "excluded"] => some ⟨parseNode a, parseNode b, .excluded⟩
     | _ => none)
  | _ => none

open Resolvo.Graph in
/-- C03 oracles on the implementation's conflict graph. -/
def graphOracle (U : Universe) (P : Problem) (r : ImplSolve) : List String :=
  if r.graphNodes.isEmpty && r.graphEdges.isEmpty then
    (match r.other.find? (fun l => l.startsWith "graph panic") with
     | some l => [s!"oracle-fail C03,C04 graph-panic: {l}"]
     | none => ["oracle-fail C03 graph-missing: Unsolvable without a conflict graph"])
  else
    let edges := r.graphEdges.filterMap parseEdge
    let nodes := r.graphNodes.map parseNode
    let bad := edges.filter (fun e => !edgeTrueB U P edges e)
    let o1 := if edges.length != r.graphEdges.length then ["oracle-fail C03 graph-parse: unparsable edge"] else []
    let o2 := match bad with
      | e :: _ => [s!"oracle-fail C03 edge-untrue: edge {repr e} does not state a true fact of the provider's data".replace "\n" " "]
      | [] => []
    let o3 := if reachableB edges nodes then [] else ["oracle-fail C03 unreachable: a node of the conflict graph is not reachable from the root"]
    let o4 := if graphRefutes edges then [] else ["oracle-fail C03 not-a-refutation: the facts shown in the conflict graph (with one-solvable-per-package for forbid-joined nodes) allow a selection that installs the root"]
    -- C04: the rendered forms are bounded by the size of the conflict (linear in nodes + edges, with room for the
    -- indentation of nested requirements); measured maximum over 239 000 generated conflicts: 70 bytes per element
    let size := nodes.length + edges.length + 1
    let bound := size * (300 + 8 * nodes.length)
    let msgBytes := r.message.length / 2
    let gvBytes := match r.other.find? (fun l => l.startsWith "graphviz-len ") with
      | some l => nat! ((l.drop 13).toString)
      | none => 0
    let o5 := (if msgBytes > bound then
        [s!"oracle-fail C04 message-size: the user-friendly message has {msgBytes} bytes for a conflict graph with {nodes.length} nodes and {edges.length} edges (bound {bound})"] else []) ++
      (if gvBytes > bound then
        [s!"oracle-fail C04 graphviz-size: the graphviz form has {gvBytes} bytes for a conflict graph with {nodes.length} nodes and {edges.length} edges (bound {bound})"] else [])
    o1 ++ o2 ++ o3 ++ o4 ++ o5 ++ [s!"info graph edges {edges.length} nodes {nodes.length}"]

def oracleSolve (U : Universe) (P : Problem) (cfg : String) (r : ImplSolve) (prior : List String := []) : List String :=
  let solvable := decideSolvable U P
  let info := [s!"info solvable {solvable} result {r.result}"] ++ (if r.result == "panic" || r.result == "abort" then [] else traceOracle U P r)
  let sync := cfgGet cfg "mode" == "sync"
  let cancelled := cfgGet cfg "cancel" != "-"
  let ls : List String := match r.result with
  | "ok" =>
    let sel := r.solution
    let exempt := P.soft.filter (fun s => sel.contains s)
    let o1 := if validB U P sel exempt then [] else
      [s!"oracle-fail C01,C10,C13,C14,C15 valid: solution [{natList sel}] violates {validWhy U P sel exempt}"]
    let o2 := if solvable then [] else [s!"oracle-fail C02,C10,C13,C14,C15 verdict: implementation returned a solution but the hard problem has none (decideSolvable=false)"]
    let o5 := if supportedB U P sel then [] else
      [s!"oracle-fail C05 supported: solution [{natList sel}] contains a solvable not reachable from the root/soft requirements (supported: [{natList (supportClosure U P sel)}])"]
    let o7 := if P.soft.isEmpty then
        match preferredConsistent U P with
        | some pref =>
          let o := if sameSet pref sel then [] else
            [s!"oracle-fail C07 preferred: first choices [{natList pref}] are mutually compatible but solution is [{natList sel}]"]
          -- C09 exactness on conflict-free problems without hints: dependencies requested for exactly the
          -- solvables of the solution, candidates for exactly the names their dependencies and the root mention
          let dcalls := (r.calls.filter (·.startsWith "d")).map (fun c => nat! (c.drop 1).toString)
          let ccalls := (r.calls.filter (·.startsWith "c")).map (fun c => nat! (c.drop 1).toString)
          let names := (namesOfDeps U P.reqs P.constraints ++ pref.flatMap (fun s => match U.deps s with
              | .known rs cs => namesOfDeps U rs cs | .unknown _ => [])).eraseDups
          let ox := if sync && prior.isEmpty && noHints U && cfgGet cfg "sortpeeks" != "1" then
              (if sameSet dcalls pref then [] else
                [s!"oracle-fail C09 exact-deps: conflict-free problem, solution [{natList pref}], but get_dependencies was called for [{natList dcalls}]"]) ++
              (if sameSet ccalls names then [] else
                [s!"oracle-fail C09 exact-cands: conflict-free problem, names mentioned [{natList names}], but get_candidates was called for [{natList ccalls}]"])
            else []
          o ++ ox ++ ["info preferred-consistent 1"]
        | none => []
      else []
    let o8 := if P.soft.isEmpty then
        match bestDirectApplicable U P with
        | some fcs => if fcs.all (fun c => sel.contains c) then ["info best-direct-applicable 1"] else
            [s!"oracle-fail C08 best-direct: a valid solution contains all first choices [{natList fcs}] of the root requirements but solution is [{natList sel}]", "info best-direct-applicable 1"]
        | none => []
      else []
    -- C14 (c): the last soft requirement was tried on top of exactly this solution; if the solution can be extended by
    -- it (and first choices for what it needs) without touching anything installed, skipping it was not best effort
    let o14 := if !sync || !prior.isEmpty || cancelled then [] else
      match P.soft.getLast? with
      | some s =>
        (match softInstallable U P sel exempt s with
         | some ext =>
           -- the known mechanism: an excluded / locked-out solvable was accepted under the documented exemption before
           -- its package was requested; once a later soft requirement requests the package, the package-level assertion
           -- contradicts the accepted solvable and every later soft requirement is rejected
           (match exempt.find? (fun e => U.excluded e || U.lockedOut e) with
            | some e => [s!"oracle-fail C14 soft-poisoned: a later soft requirement is rejected after an excluded or locked-out soft solvable was accepted under the exemption (rejected {s}, accepted {e}, solution [{natList sel}], could add [{natList ext}])"]
            | none => [s!"oracle-fail C14 soft-skipped: soft requirement {s} is not in the solution [{natList sel}] although adding [{natList ext}] keeps it valid"])
         | none => [])
      | none => []
    info ++ o1 ++ o2 ++ o5 ++ o7 ++ o8 ++ o14
  | "unsat" =>
    let o2 := if solvable then [s!"oracle-fail C02,C10,C13,C14,C15 verdict: implementation says Unsolvable but a solution exists (decideSolvable=true)"] else []
    info ++ o2 ++ graphOracle U P r
  | "cancelled" =>
    if cancelled && r.calls.any (·.startsWith "P") then info
    else info ++ [s!"oracle-fail C12 spurious-cancel: Cancelled returned although should_cancel_with_value never returned a value"]
  | "panic" =>
    info ++ [s!"oracle-fail C04,C10,C13,C14 panic: {r.resultArg}"]
  | other => info ++ [s!"oracle-fail C04,C10,C13 outcome: unexpected result {other}"]
  (
    -- C09 / C10 at-most-once on every outcome; causality for sync runs without hints
    let d := match dupWithin r.calls with
      | some c => [s!"oracle-fail C09,C10,C13 at-most-once: provider call {c} issued twice during one solve"]
      | none => match dupCalls (prior ++ r.calls) with
        | some c => [s!"oracle-fail C09,C10,C13 at-most-once: provider call {c} issued again although its answer had been obtained by an earlier solve on this solver"]
        | none => []
    -- C11 / C10: asynchronous runs
    let known := (prior.filter (·.startsWith "C")).map (fun w => nat! (w.drop 1).toString)
    -- (with a provider whose sort_candidates reads dependencies through the cache, `D` markers also record answers the
    -- *provider* asked for; they do not imply requests of the solver, so the pending-set oracle does not apply)
    let c11 := if sync then [] else
      (match (if cfgGet cfg "sortpeeks" == "1" then none else c11Check U P r.events known) with
       | some why => [s!"oracle-fail C11 not-issued: {why}"]
       | none => []) ++
      (if r.result == "panic" && (r.resultArg.splitOn "DEADLOCK").length > 1 then
        ["oracle-fail C10,C13 deadlock: the solver is pending but no provider request is outstanding"] else [])
    let c := if sync && prior.isEmpty && noHints U && !cfgGet cfg "sortpeeks" == "1" then
        match causalCheck U P r.calls with
        | some why => [s!"oracle-fail C09 causal: {why}"]
        | none => []
      else []
    -- C12: cancellation is honoured promptly and faithfully
    let plan := cfgGet cfg "cancel"
    let c12 :=
      if plan == "-" || plan == "" then []
      else
        let isCall (w : String) := w.startsWith "c" || w.startsWith "d"
        -- position of the first poll that returned a value
        let firstFired := (r.calls.takeWhile (fun w => !w.startsWith "P")).length
        let observed := firstFired < r.calls.length
        let firstSeen := (r.calls.takeWhile (fun w => !(w.startsWith "P" || w.startsWith "Q"))).length
        -- (`Q`: a poll that returned the value to a SolverCache call made from inside the provider's own sort_candidates -
        -- a look-ahead provider cannot hand it to the solver, so only `P` obliges solve to return Cancelled; but the
        -- cache has observed it, and no request may be started afterwards)
        let afterObs := (r.calls.drop (firstSeen + 1)).filter isCall
        let o1 := if observed && r.result != "cancelled" then
            [s!"oracle-fail C12 not-cancelled: should_cancel_with_value returned a value at a poll but solve returned `{r.result}`"] else []
        -- (a look-ahead provider returns one constant value: that of the first poll that fired, `P` or `Q`)
        let o2 := if observed && r.result == "cancelled" &&
                     r.resultArg != toString (7000 + nat! ((r.calls.getD firstSeen "P0").drop 1).toString) then
            [s!"oracle-fail C12 wrong-value: Cancelled carries {r.resultArg}, the provider returned {7000 + nat! ((r.calls.getD firstSeen "P0").drop 1).toString}"] else []
        let o3 := if !afterObs.isEmpty then
            [s!"oracle-fail C12 call-after-cancel: provider request {afterObs.headD ""} was started after cancellation had been observed"] else []
        -- call-indexed plans: the signal goes up while request number j is served
        let o4 := if plan.startsWith "c" then
            let jGlobal := nat! (plan.drop 1).toString
            let before := (prior.filter isCall).length
            let callIdxs := (r.calls.zipIdx.filter (fun p => isCall p.1)).map (·.2)
            let j := jGlobal - before
            match (if jGlobal < before then none else callIdxs[j]?) with
            | some pos =>
              let later := (r.calls.drop (pos + 1)).filter isCall
              let transient := cfgGet cfg "transient" == "1"
              -- (whether the solver polls again after its *last* request is not promised: a signal that goes
              -- up during the last request of a solve may legitimately go unnoticed)
              let _ := transient
              (if !later.isEmpty then
                [s!"oracle-fail C12 request-after-signal: the cancellation signal went up during provider request number {jGlobal} but request {later.headD ""} was still started afterwards (no poll in between)"] else [])
            | none => []
          else []
        -- the cache was handed the value (by a poll of either kind) and the solve ends in a panic instead of `Cancelled`
        let o5 := if firstSeen < r.calls.length && r.result == "panic" then
            [s!"oracle-fail C12 panic-after-cancel: should_cancel_with_value returned a value at a poll and solve panicked: {r.resultArg}"] else []
        o1 ++ o2 ++ o3 ++ o4 ++ o5
    ls ++ d ++ c ++ c12 ++ c11)

def parseF32 (s : String) : Float32 :=
  match s.splitOn "." with
  | [i] => Float32.ofNat (nat! i)
  | [i, f] => Float32.ofScientific (nat! (i ++ f)) true f.length
  | _ => 0

/-- initial MDet solver state from the `config` line -/
def mdetInit (cfg : String) : Resolvo.MDet.S :=
  let c := cfgGet cfg "cancel"
  let act := cfgGet cfg "activity"
  let s0 : Resolvo.MDet.S := { cancelAt := c.toNat?, cancelAtCall := (if c.startsWith "c" then (c.drop 1).toString.toNat? else none),
                                cancelTransient := cfgGet cfg "transient" == "1" }
  match act.splitOn ":" with
  | [a, d] => { s0 with activityAdd := parseF32 a, activityDecay := parseF32 d }
  | _ => s0

/-- Exact correspondence: the model's observations of one solve vs the implementation's. -/
def mdetCompare (U : Universe) (ms : Resolvo.MDet.S) (o : Resolvo.MDet.Outcome) (newLog : List String) (newTrace : List String) (r : ImplSolve) : List String :=
  let (mres, msol, mconf) : String × List Nat × List Nat := match o with
    | .ok sol => ("ok", sol, [])
    | .unsat c => ("unsat", [], c)
    | .stop (.cancelled v) => (s!"cancelled {v}", [], [])
    | .stop (.panic site) => (s!"panic {site}", [], [])
    | .stop .outOfFuel => ("out-of-fuel", [], [])
  let ires := if r.result == "cancelled" then s!"cancelled {r.resultArg}" else r.result
  let mresCmp := if mres.startsWith "panic" then "panic" else mres
  if o matches .stop .outOfFuel then ["oracle-fail C04 mdet-fuel: the model ran out of fuel on this case"]
  else if ires != mresCmp then [s!"oracle-fail C01,C02,C04,C05,C06,C07,C08,C09,C10,C11,C12,C13,C14,C15 mdet-result: implementation `{ires}` model `{mres}`"]
  else if msol != r.solution then [s!"oracle-fail C01,C05,C06,C07,C08,C10,C13,C14 mdet-solution: implementation [{natList r.solution}] model [{natList msol}]"]
  else if newLog != r.calls then
    let k := ((newLog.zip r.calls).takeWhile (fun p => p.1 == p.2)).length
    [s!"oracle-fail C09,C10,C11,C12,C13 mdet-calls: provider call log differs at position {k}: implementation `{r.calls.getD k "<end>"}` model `{newLog.getD k "<end>"}`"]
  else if mres.startsWith "panic" then []
  else if newTrace != r.trace then
    let k := ((newTrace.zip r.trace).takeWhile (fun p => p.1 == p.2)).length
    [s!"oracle-fail C01,C02,C03,C05,C06,C07,C08,C10,C13,C14,C15 mdet-trace: solver history differs at event {k}: implementation `{r.trace.getD k "<end>"}` model `{newTrace.getD k "<end>"}`"]
  else if mconf != r.conflictClauses then [s!"oracle-fail C03,C06 mdet-conflict-clauses: implementation [{natList r.conflictClauses}] model [{natList mconf}]"]
  else
    -- Conflict::graph
    let g := if mres == "unsat" && !(r.graphNodes.isEmpty && r.graphEdges.isEmpty) then
        let (nodes, edges) := Resolvo.MDet.conflictGraph U ms mconf
        let mn := Resolvo.MDet.sortStr (nodes.map Resolvo.MDet.nodeStr)
        let me := Resolvo.MDet.sortStr (edges.map Resolvo.MDet.edgeStr)
        if me != r.graphEdges then [s!"oracle-fail C03,C06 mdet-graph: conflict graph edges differ: implementation [{" ".intercalate r.graphEdges}] model [{" ".intercalate me}]"]
        else if mn != r.graphNodes then [s!"oracle-fail C03,C06 mdet-graph: conflict graph nodes differ: implementation [{" ".intercalate r.graphNodes}] model [{" ".intercalate mn}]"]
        else
          -- the object of `C03.edges_truthful_exact_model`: the ordered graph built from the model's own final state
          let own := Resolvo.MDet.sortStr ((Resolvo.Render.nodeEdges (Resolvo.MDet.modelGraph U ms mconf)).map (fun x => Resolvo.MDet.edgeStr ⟨x.1, x.2.1, x.2.2⟩))
          if own != r.graphEdges then [s!"oracle-fail C03,C06 mdet-graph-own: the graph built from the model's own clause arena has other edges: implementation [{" ".intercalate r.graphEdges}] model [{" ".intercalate own}]"]
          else ["info mdet-graph-own 1"]
      else []
    g ++ ["info mdet-exact 1"]

def runSolve (lines : List String) : List String :=
  let caseLines := lines.filter (fun l => !l.startsWith "> ")
  let implLines := (lines.filter (fun l => l.startsWith "> ")).map (fun l => (l.drop 2).toString)
  let U := parseUniverse caseLines
  let probs := (caseLines.filter (fun l => l.startsWith "problem ")).map parseProblem
  let cfg := (caseLines.find? (fun l => l.startsWith "config ")).getD "config"
  if !wfB U then ["info not-wf"]
  else
    let impls := parseImpl implLines
    let sync := cfgGet cfg "mode" == "sync" && cfgGet cfg "sortpeeks" != "1"
    -- asynchronous provider with synchronous filter/sort: the exact model follows the executor's completion order
    let asyncExact := cfgGet cfg "mode" == "async" && cfgGet cfg "sortpeeks" != "1"
    let rec go (ps : List Problem) (is : List ImplSolve) (k : Nat) (ms : Resolvo.MDet.S) (prior : List String) (acc : List String) : List String :=
      match ps, is with
      | p :: ps', i :: is' =>
        let md := if sync || asyncExact then
            let fuel := 400 + 40 * (U.solvs.length + U.vsets.length) * (U.solvs.length + 4)
            let sched := (i.events.filter (·.startsWith "complete ")).map (fun e => (e.drop 9).toString)
            let (o, ms') := Resolvo.MDet.solveRun U p (if asyncExact then 4 * fuel else fuel)
              { ms with trace := [], asyncMode := asyncExact, gateFs := cfgGet cfg "gatefs" == "1", sched := sched, aevents := [] }
            let newLog := (ms'.log.take (ms'.log.length - ms.log.length)).reverse
            -- the checked model: its own history and answer go through the verified checkers
            let chk := match Resolvo.MDet.checkOutcome U p o ms'.trace.reverse with
              | .checkFailed what => [s!"oracle-fail C01,C02,C03,C05,C14,C15 mdet-checkfailed: the model's own run does not pass the verified checkers: {what}"]
              | .ok _ => ["info checked ok"]
              | .unsat _ => ["info checked unsat"]
              | .stop _ => ["info checked stop"]
            let evs := if asyncExact && ms'.aevents.reverse != i.events && !(o matches .stop _) then
                let me := ms'.aevents.reverse
                let k := ((me.zip i.events).takeWhile (fun p => p.1 == p.2)).length
                [s!"oracle-fail C10,C11 mdet-events: executor events differ at position {k}: implementation `{i.events.getD k "<end>"}` model `{me.getD k "<end>"}`"]
              else []
            -- the model's ghost record of candidate requests is the `c<n>` entries of its own call log
            let ghost := if (ms'.issuedCands.reverse.map (fun n => s!"c{n}")) == newLog.filter (fun w => w.startsWith "c") then []
              else ["oracle-fail C09,C10 mdet-ghost: the model's structured record of get_candidates requests differs from its call log"]
            -- the structured twin of the call log (the object of the C12 theorems) renders to the call log itself
            let ghost := ghost ++ (if ((ms'.glog.take (ms'.glog.length - ms.glog.length)).reverse.map Resolvo.MDet.gevStr) == newLog then []
              else ["oracle-fail C09,C10,C12 mdet-ghost: the model's structured call log differs from its call log"])
            let ghost := ghost ++ (if (ms'.issuedDeps.reverse.map (fun n => s!"d{n}")) == newLog.filter (fun w => w.startsWith "d") then []
              else ["oracle-fail C09,C10 mdet-ghost: the model's structured record of get_dependencies requests differs from its call log"])
            (mdetCompare U ms' o newLog (ms'.trace.reverse.map Resolvo.MDet.evLine) i ++ evs ++ ghost ++ chk, ms')
          else ([], ms)
        -- C15 family: the spec-level expectation (two candidates of one package required => Unsolvable; one => solvable)
        let expect := (caseLines.find? (fun l => l.startsWith "expect ")).map (fun l => (l.drop 7).toString)
        let ex := match expect with
          | some e => if i.result == e then [] else [s!"oracle-fail C15 pair-or-single: the problem requires {if e == "unsat" then "two different candidates" else "exactly one candidate"} of one package, expected `{e}` but solve returned `{i.result}`"]
          | none => []
        go ps' is' (k + 1) md.2 (prior ++ i.calls) (acc ++ [s!"solve {k}"] ++ oracleSolve U p cfg i prior ++ md.1 ++ ex)
      | _, _ => acc
    go probs impls 0 (mdetInit cfg) [] []

end Resolvo.Drv
