/-! Line-protocol helpers for the driver (core only). -/
namespace Resolvo.Drv

def words (s : String) : List String :=
  (s.splitOn " ").filter (fun w => w != "")

def nat! (s : String) : Nat := s.toNat?.getD 0

def optStr (o : Option Nat) : String :=
  match o with
  | some v => toString v
  | none => "-"

/-- A case: header fields and body lines. -/
structure Case where
  id : String
  family : String
  lines : List String

/-- Split the input into `case … end` blocks. -/
def parseCases (ls : List String) : List Case :=
  let rec go (ls : List String) (cur : Option (String × String × List String)) (acc : List Case) : List Case :=
    match ls with
    | [] => acc.reverse
    | l :: rest =>
      let ws := words l
      match ws, cur with
      | ["case", id, fam], _ => go rest (some (id, fam, [])) acc
      | ["end"], some (id, fam, body) => go rest none ({ id := id, family := fam, lines := body.reverse } :: acc)
      | _, some (id, fam, body) => go rest (some (id, fam, l :: body)) acc
      | _, none => go rest none acc
  go ls none []

end Resolvo.Drv
