import Resolvo.Drv.Parse
import Resolvo.CacheModel
namespace Resolvo.Drv
open Resolvo Resolvo.CacheM

def natListS (l : List Nat) : String := l.foldl (fun s x => s ++ s!" {x}") ""

def reqS : Req → String
  | .single v => s!"v{v}"
  | .union u => s!"u{u}"

def ansLine : Ans → String
  | .cands none => "list"
  | .cands (some l) => "list" ++ natListS l
  | .list l => "list" ++ natListS l
  | .deps (.known reqs cons) => "deps known reqs" ++ reqs.foldl (fun s r => s ++ " " ++ reqS r) "" ++ " cons" ++ natListS cons
  | .deps (.unknown r) => s!"deps unknown {r}"
  | .bool b => s!"bool {if b then 1 else 0}"
  | .word w => w

def parseOp (l : String) : Option Op :=
  match words l with
  | ["op", "cand", n] => some (.candidates (nat! n))
  | ["op", "match", v] => some (.matching (nat! v))
  | ["op", "nonmatch", v] => some (.nonMatching (nat! v))
  | ["op", "sorted", r] => some (.sorted (parseReq r))
  | ["op", "deps", s] => some (.deps (nat! s))
  | ["op", "avail", s] => some (.available (nat! s))
  | ["op", "dstart", s] => some (.depsStart (nat! s))
  | ["op", "ddrop", s] => some (.depsDrop (nat! s))
  | ["op", "dfinish", s] => some (.depsFinish (nat! s))
  | ["op", "cstart", n, k] => some (.candStart (nat! n) (nat! k))
  | ["op", "cdrop", k] => some (.candDrop (nat! k))
  | ["op", "copen", n] => some (.candOpen (nat! n))
  | ["op", "cpoll", k] => some (.candPoll (nat! k))
  | _ => none

def runCache (lines : List String) : List String :=
  let U := parseUniverse lines
  let peek := lines.contains "peek 1"
  let ops := lines.filterMap parseOp
  let (st, answers) := CacheM.run U peek {} ops
  let log := st.log.foldl (fun s c => match c with
    | .cands n => s ++ s!" c{n}"
    | .deps d => s ++ s!" d{d}"
    | _ => s) "log"
  answers.map ansLine ++ [log]

end Resolvo.Drv
