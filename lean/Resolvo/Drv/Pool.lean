import Resolvo.Drv.Util
import Resolvo.Data.Arena
import Resolvo.Generated.Constants
namespace Resolvo.Drv
open Resolvo.Arena Resolvo.Pool

def runPool (lines : List String) : List String :=
  let c := Resolvo.Generated.arenaChunkSize
  let rec go (p : P) (ls : List String) (acc : List String) : List String :=
    match ls with
    | [] => acc.reverse
    | l :: rest =>
      match words l with
      | ["str", w] => let (t, id) := p.strings.intern w; go { p with strings := t } rest (s!"id {id}" :: acc)
      | ["name", w] => let (t, id) := p.names.intern w; go { p with names := t } rest (s!"id {id}" :: acc)
      | ["lookup", w] => go p rest ((match p.names.lookup w with | some id => s!"id {id}" | none => "id -") :: acc)
      | ["solv", n, r] => let (a, id) := alloc p.solvables (nat! n, nat! r); go { p with solvables := a } rest (s!"id {id}" :: acc)
      | ["vs", n, v] => let (t, id) := p.versionSets.intern (nat! n, nat! v); go { p with versionSets := t } rest (s!"id {id}" :: acc)
      -- the iterator of the outer union interns the inner one while it is consumed: the inner union is allocated first
      | "unionnest" :: ids =>
        let outer := ids.takeWhile (· != "/")
        let inner := (ids.dropWhile (· != "/")).drop 1
        let (a1, idI) := alloc p.unions (inner.map nat!)
        let (a2, idO) := alloc a1 (outer.map nat!)
        go { p with unions := a2 } rest (s!"id {idO} {idI}" :: acc)
      | "union" :: ids => let (a, id) := alloc p.unions (ids.map nat!); go { p with unions := a } rest (s!"id {id}" :: acc)
      | ["rstr", i] => go p rest ((match p.strings.resolve (nat! i) with | some v => s!"val {v}" | none => "panic") :: acc)
      | ["rname", i] => go p rest ((match p.names.resolve (nat! i) with | some v => s!"val {v}" | none => "panic") :: acc)
      | ["rsolv", i] => go p rest ((match get? p.solvables (nat! i) with | some v => s!"val {v.1} {v.2}" | none => "panic") :: acc)
      | ["rvs", i] => go p rest ((match p.versionSets.resolve (nat! i) with | some v => s!"val {v.1} {v.2}" | none => "panic") :: acc)
      | ["runion", i] => go p rest ((match get? p.unions (nat! i) with
          | some v => v.foldl (fun s x => s ++ s!" {x}") "val" | none => "panic") :: acc)
      | ["check-stable"] => go p rest ("stable 1" :: acc)   -- C18.addr_stable / resolve_stable
      | _ => go p rest ("bad-op" :: acc)
  go (P.new c) lines []

end Resolvo.Drv
