import Resolvo.Drv.Util
import Resolvo.Spec
/-! Parser for the universe / problem / implementation-output lines of the solver families. -/
namespace Resolvo.Drv
open Resolvo

def parseReq (s : String) : Req :=
  let n := nat! (s.drop 1).toString
  if s.startsWith "v" then .single n else .union n

/-- numbers up to (not including) the first token in `stops` -/
def takeNums (ts : List String) (stops : List String) : List Nat × List String :=
  let rec go (ts : List String) (acc : List Nat) : List Nat × List String :=
    match ts with
    | [] => (acc.reverse, [])
    | t :: rest => if stops.contains t then (acc.reverse, t :: rest) else go rest (nat! t :: acc)
  go ts []

def parseOptNat (s : String) : Option Nat := s.toNat?

def parsePair (s : String) : Nat × Nat :=
  match s.splitOn ":" with
  | [a, b] => (nat! a, nat! b)
  | _ => (0, 0)

def addLine (U : Universe) (l : String) : Universe :=
  match words l with
  | "pkg" :: n :: "cands" :: rest =>
    let (cands, r1) := takeNums rest ["fav"]
    match r1 with
    | "fav" :: f :: "lock" :: lk :: "excl" :: r2 =>
      let ex := r2.takeWhile (· != "hint")
      let h := (r2.dropWhile (· != "hint")).drop 1
      let hint := match h with
        | "all" :: _ => Hint.all
        | "some" :: xs => Hint.some (xs.map nat!)
        | _ => Hint.none
      let p : Pkg := { cands := cands, favored := parseOptNat f, locked := parseOptNat lk, excluded := ex.map parsePair, hint := hint }
      { U with pkgs := U.pkgs ++ [(nat! n, p)] }
    | _ => U
  | "solv" :: s :: "name" :: n :: "rank" :: k :: "unknown" :: r :: _ =>
    { U with solvs := U.solvs ++ [(nat! s, { name := nat! n, rank := nat! k, deps := .unknown (nat! r) })] }
  | "solv" :: s :: "name" :: n :: "rank" :: k :: "known" :: "reqs" :: rest =>
    let reqs := (rest.takeWhile (· != "cons")).map parseReq
    let cons := ((rest.dropWhile (· != "cons")).drop 1).map nat!
    { U with solvs := U.solvs ++ [(nat! s, { name := nat! n, rank := nat! k, deps := .known reqs cons })] }
  | "vs" :: v :: "name" :: n :: "match" :: rest =>
    { U with vsets := U.vsets ++ [(nat! v, { name := nat! n, matching := rest.map nat! })] }
  | "union" :: u :: "vs" :: rest =>
    { U with unions := U.unions ++ [(nat! u, rest.map nat!)] }
  | "filterrev" :: v :: _ => { U with filterRev := v == "1" }
  | _ => U

def parseUniverse (ls : List String) : Universe := ls.foldl addLine {}

def parseProblem (l : String) : Problem :=
  let ws := (words l).drop 1
  let reqs := ((ws.dropWhile (· != "reqs")).drop 1).takeWhile (fun w => w != "cons" && w != "soft")
  let cons := ((ws.dropWhile (· != "cons")).drop 1).takeWhile (fun w => w != "soft")
  let soft := (ws.dropWhile (· != "soft")).drop 1
  { reqs := reqs.map parseReq, constraints := cons.map nat!, soft := soft.map nat! }

/-- value of `key` in a `config k v k v …` line -/
def cfgGet (l : String) (key : String) : String :=
  let rec go : List String → String
    | k :: v :: rest => if k == key then v else go rest
    | _ => ""
  go ((words l).drop 1)

/-- Observations of one `solve` call printed by the harness. -/
structure ImplSolve where
  result : String := ""            -- ok | unsat | cancelled | panic
  resultArg : String := ""
  solution : List Nat := []
  calls : List String := []
  trace : List String := []
  conflictClauses : List Nat := []
  graphNodes : List String := []
  graphEdges : List String := []
  message : String := ""
  events : List String := []
  other : List String := []
deriving Inhabited

def addImplLine (s : ImplSolve) (l : String) : ImplSolve :=
  match words l with
  | "result" :: r :: rest => { s with result := r, resultArg := " ".intercalate rest }
  | "solution" :: xs => { s with solution := xs.map nat! }
  | "calls" :: xs => { s with calls := xs }
  | "t" :: _ => { s with trace := (l.drop 2).toString :: s.trace }
  | "conflict-clauses" :: xs => { s with conflictClauses := xs.map nat! }
  | "graph-nodes" :: xs => { s with graphNodes := xs }
  | "graph-edges" :: xs => { s with graphEdges := xs }
  | "message" :: m :: _ => { s with message := m }
  | "ev" :: _ => { s with events := (l.drop 3).toString :: s.events }
  | _ => { s with other := l :: s.other }

/-- Split implementation lines (those prefixed `> `) into per-solve records. -/
def parseImpl (ls : List String) : List ImplSolve :=
  let rec go (ls : List String) (cur : Option ImplSolve) (acc : List ImplSolve) : List ImplSolve :=
    let fin (c : Option ImplSolve) (acc : List ImplSolve) :=
      match c with
      | some s => { s with trace := s.trace.reverse, events := s.events.reverse, other := s.other.reverse } :: acc
      | none => acc
    match ls with
    | [] => (fin cur acc).reverse
    | l :: rest =>
      match words l with
      | ["solve", _] => go rest (some {}) (fin cur acc)
      | _ => match cur with
        | some s => go rest (some (addImplLine s l)) acc
        | none => go rest none acc
  go ls none []

end Resolvo.Drv
