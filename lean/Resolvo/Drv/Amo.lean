import Resolvo.Drv.Util
import Resolvo.Enc.AtMostOne
namespace Resolvo.Drv
open Resolvo.Amo

def runAmo (lines : List String) : List String :=
  match lines with
  | l :: _ =>
    match words l with
    | "amo" :: first :: vs =>
      let s := addAll { next := nat! first } (vs.map nat!)
      [s.out.foldl (fun acc c => acc ++ s!" {c.a}:{c.b}:{if c.pos then 1 else 0}") "clauses"]
    | _ => ["bad-op"]
  | [] => ["bad-op"]

end Resolvo.Drv
