import Resolvo.Drv.Parse
import Resolvo.Abs.Check
/-! Parses `verif-hooks` trace lines into abstract events. -/
namespace Resolvo.Drv
open Resolvo Resolvo.Abs Resolvo.Sat

def parseLit (s : String) : Lit := (nat! (s.drop 1).toString, s.startsWith "+")

def parseReqWords : List String → Option Req
  | ["single", v] => some (.single (nat! v))
  | ["union", u] => some (.union (nat! u))
  | _ => none

def splitGroups (ws : List String) : List (List Nat) :=
  -- "| 1 2 | 3" → [[1,2],[3]]
  let rec go (ws : List String) (cur : Option (List Nat)) (acc : List (List Nat)) : List (List Nat) :=
    match ws with
    | [] => (match cur with | some c => (c.reverse :: acc) | none => acc).reverse
    | "|" :: rest => go rest (some []) (match cur with | some c => c.reverse :: acc | none => acc)
    | w :: rest => go rest (some (nat! w :: cur.getD [])) acc
  go ws none []

/-- One trace line → event (a `cands` line is attached to the preceding `requires` clause event). -/
def addTraceLine (acc : List Event) (l : String) : List Event :=
  match words l with
  | ["var", v, "solvable", s] => .var (nat! v) (.solvable (nat! s)) :: acc
  | ["var", v, "forbid", n] => .var (nat! v) (.forbid (nat! n)) :: acc
  | ["clause", id, "root"] => .clause (nat! id) .root [] :: acc
  | "clause" :: id :: "requires" :: p :: rw =>
    (match parseReqWords rw with
     | some r => .clause (nat! id) (.requires (nat! p) r) [] :: acc
     | none => .note :: acc)
  | "cands" :: _ :: _ :: gs =>
    (match acc with
     | .clause id (.requires p r) _ :: rest => .clause id (.requires p r) (splitGroups gs) :: rest
     | _ => .note :: acc)
  | ["clause", id, "constrains", p, c, vs] => .clause (nat! id) (.constrains (nat! p) (nat! c) (nat! vs)) [] :: acc
  | ["clause", id, "forbid", a, h, n] =>
    let hl := parseLit h
    .clause (nat! id) (.forbid (nat! a) hl.1 hl.2 (nat! n)) [] :: acc
  | ["clause", id, "lock", l, o] => .clause (nat! id) (.lock (nat! l) (nat! o)) [] :: acc
  | ["clause", id, "excluded", v, r] => .clause (nat! id) (.excluded (nat! v) (nat! r)) [] :: acc
  | ["clause", id, "learnt", i] => .clause (nat! id) (.learnt (nat! i)) [] :: acc
  | "learnt" :: i :: "lits" :: ws =>
    let lits := (ws.takeWhile (· != "why")).map parseLit
    let why := ((ws.dropWhile (· != "why")).drop 1).map nat!
    .learntLits (nat! i) lits why :: acc
  | ["assign", v, b, lvl, r] => .assign (nat! v) (b == "1") (nat! lvl) (nat! r) :: acc
  | ["undo", v] => .undo (nat! v) :: acc
  | ["clear"] => .clear :: acc
  | ["unsolvable", c] => .unsolvable (nat! c) :: acc
  | _ => .note :: acc

def parseTrace (ls : List String) : List Event := (ls.foldl addTraceLine []).reverse

end Resolvo.Drv
