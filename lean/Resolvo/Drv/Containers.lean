import Resolvo.Drv.Util
import Resolvo.Data.CowVector
namespace Resolvo.Drv
open Resolvo.Cow

def hnum (s : String) : Nat := nat! (s.drop 1).toString
def vecLine (h : Nat) (l : List Nat) : String := l.foldl (fun s x => s ++ s!" {x}") s!"vec {h}"
def strShow (t : String) : String := if t.isEmpty then "\"\"" else t
def strLine (h : Nat) (t : String) : String := s!"str {h} {strShow t}"

structure CSt where
  spec : Spec := List.replicate 8 []
  heap : Heap := Heap.init 8
  strs : List String := List.replicate 8 ""
  modelOk : Bool := true

def applyOp (st : CSt) (op : Op) : CSt :=
  let spec' := specStep st.spec op
  let heap' := heapStep st.heap op
  { st with spec := spec', heap := heap', modelOk := st.modelOk && heap'.wf && heap'.abs == spec' }

def runContainers (lines : List String) : List String :=
  let rec go (st : CSt) (ls : List String) (acc : List String) : List String :=
    match ls with
    | [] =>
      let tail := if st.modelOk then [] else ["model-inconsistent: the heap model lost its invariant or stopped refining the spec on this sequence"]
      (("leak-check done" :: tail.reverse) ++ acc).reverse
    | l :: rest =>
      match words l with
      | "vinit" :: h :: xs =>
        let st := applyOp st (.init (hnum h) (xs.map nat!)); go st rest (vecLine (hnum h) (st.spec.get (hnum h)) :: acc)
      | "vrange" :: h :: xs =>
        let st := applyOp st (.init (hnum h) (xs.map nat!)); go st rest (vecLine (hnum h) (st.spec.get (hnum h)) :: acc)
      | ["vcopy", h, g] => let st := applyOp st (.copy (hnum h) (hnum g)); go st rest (vecLine (hnum h) (st.spec.get (hnum h)) :: acc)
      | ["vassign", h, g] => let st := applyOp st (.assign (hnum h) (hnum g)); go st rest (vecLine (hnum h) (st.spec.get (hnum h)) :: acc)
      | ["vmove", h, g] =>
        let st := applyOp st (.move (hnum h) (hnum g))
        go st rest (vecLine (hnum g) (st.spec.get (hnum g)) :: vecLine (hnum h) (st.spec.get (hnum h)) :: acc)
      | ["vpush", h, x] => let st := applyOp st (.push (hnum h) (nat! x)); go st rest (vecLine (hnum h) (st.spec.get (hnum h)) :: acc)
      | ["vspan", h] =>
        let xs := st.spec.get (hnum h)
        go st rest (s!"span {xs.length} sum {xs.foldl (· + ·) 0}" :: acc)
      | ["vpushmove", h, i] =>
        let x := (st.spec.get (hnum h)).getD (nat! i) 0
        let st := applyOp st (.push (hnum h) x); go st rest (vecLine (hnum h) (st.spec.get (hnum h)) :: acc)
      | ["vpushself", h, i] =>
        let x := (st.spec.get (hnum h)).getD (nat! i) 0
        let st := applyOp st (.push (hnum h) x); go st rest (vecLine (hnum h) (st.spec.get (hnum h)) :: acc)
      | ["vclear", h] => let st := applyOp st (.clear (hnum h)); go st rest (vecLine (hnum h) (st.spec.get (hnum h)) :: acc)
      | ["vset", h, i, x] => let st := applyOp st (.set (hnum h) (nat! i) (nat! x)); go st rest (vecLine (hnum h) (st.spec.get (hnum h)) :: acc)
      | ["vget", h, i] => go st rest (s!"val {(st.spec.get (hnum h)).getD (nat! i) 0}" :: acc)
      | ["vsize", h] => go st rest (s!"size {(st.spec.get (hnum h)).length} cap-ge-size 1" :: acc)
      | ["veq", h, g] => go st rest (s!"eq {if st.spec.get (hnum h) == st.spec.get (hnum g) then 1 else 0}" :: acc)
      | ["vslice", h] => go st rest (s!"sum {(st.spec.get (hnum h)).foldl (· + ·) 0}" :: acc)
      | ["sset", h, t] =>
        let t := if t == "\"\"" then "" else t
        let st := { st with strs := st.strs.set (hnum h) t }; go st rest (strLine (hnum h) t :: acc)
      | ["ssub", h, k] =>
        let t := String.ofList ((st.strs.getD (hnum h) "").toList.drop (nat! k))
        let st := { st with strs := st.strs.set (hnum h) t }; go st rest (strLine (hnum h) t :: acc)
      | ["snull", h] =>
        let st := { st with strs := st.strs.set (hnum h) "" }; go st rest (strLine (hnum h) "" :: acc)
      | ["scopy", h, g] | ["sassign", h, g] =>
        let t := st.strs.getD (hnum g) ""
        let st := { st with strs := st.strs.set (hnum h) t }; go st rest (strLine (hnum h) t :: acc)
      | ["smove", h, g] =>
        let th := st.strs.getD (hnum h) ""
        let tg := st.strs.getD (hnum g) ""
        let st := if hnum h == hnum g then st else { st with strs := (st.strs.set (hnum h) tg).set (hnum g) th }
        go st rest (strLine (hnum g) (st.strs.getD (hnum g) "") :: strLine (hnum h) (st.strs.getD (hnum h) "") :: acc)
      | ["sview", h] => let t := st.strs.getD (hnum h) ""; go st rest (s!"len {t.utf8ByteSize} {t.utf8ByteSize}" :: acc)
      | ["seq", h, g] => go st rest (s!"eq {if st.strs.getD (hnum h) "" == st.strs.getD (hnum g) "" then 1 else 0}" :: acc)
      | _ => go st rest ("bad-op" :: acc)
  go {} lines []

end Resolvo.Drv
