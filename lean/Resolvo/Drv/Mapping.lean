import Resolvo.Drv.Util
import Resolvo.Data.Mapping
import Resolvo.Generated.Constants
namespace Resolvo.Drv
open Resolvo.Mapping

def serLine (vals : List (Option Nat)) : String :=
  let rec go (i : Nat) (vs : List (Option Nat)) (acc : String) : String :=
    match vs with
    | [] => acc
    | none :: r => go (i + 1) r acc
    | some v :: r => go (i + 1) r (acc ++ s!" {i}:{v}")
  go 0 vals s!"ser {vals.length}"

def runMapping (lines : List String) : List String :=
  let c := Resolvo.Generated.mappingValuesPerChunk
  let rec go (m : M Nat) (ls : List String) (acc : List String) : List String :=
    match ls with
    | [] => acc.reverse
    | l :: rest =>
      match words l with
      | ["new", n] => go (withCapacity c (nat! n)) rest ("ok" :: acc)
      | ["insert", k, v] =>
        let (m', p) := Mapping.insert m (nat! k) (nat! v)
        go m' rest (s!"prev {optStr p}" :: acc)
      | ["unset", k] =>
        let (m', p) := Mapping.unset m (nat! k)
        go m' rest (s!"prev {optStr p}" :: acc)
      | ["getmut", k, v] =>
        let (m', p) := Mapping.getMut m (nat! k) (nat! v)
        go m' rest (s!"mut {optStr p}" :: acc)
      | ["slots"] => go m rest (s!"slots {Mapping.slots m}" :: acc)
      | ["get", k] => go m rest (s!"val {optStr (Mapping.get m (nat! k))}" :: acc)
      | ["len"] => go m rest (s!"len {m.len} empty {if Mapping.isEmpty m then 1 else 0}" :: acc)
      | ["iter"] =>
        let s := (Mapping.iter m).foldl (fun s (kv : Nat × Nat) => s ++ s!" {kv.1}:{kv.2}") "iter"
        go m rest (s :: acc)
      | ["serde"] =>
        let vals := serialize m
        go (deserialize c vals) rest (serLine vals :: acc)
      | _ => go m rest ("bad-op" :: acc)
  go (withCapacity c 1) lines []

end Resolvo.Drv
