import Resolvo.Drv.Parse
import Resolvo.Snapshot
import Resolvo.Enc.Reference
import Resolvo.Oracles
import Resolvo.SubUniverse
namespace Resolvo.Drv
open Resolvo Resolvo.Snap

def nl (l : List Nat) : String := l.foldl (fun s x => s ++ s!" {x}") ""
def reqS' : Req → String
  | .single v => s!"v{v}"
  | .union u => s!"u{u}"

def dumpSnap (tag : String) (sn : Snapshot) : List String :=
  [sn.solvables.foldl (fun s e => s ++ s!" {e.1}:{e.2.name}:{e.2.order}:{if e.2.hint then 1 else 0}") s!"{tag}-solvables"] ++
  sn.solvables.map (fun e => match e.2.deps with
    | .known reqs cons => s!"{tag}-deps {e.1} known reqs" ++ reqs.foldl (fun s r => s ++ " " ++ reqS' r) "" ++ " cons" ++ nl cons
    | .unknown r => s!"{tag}-deps {e.1} unknown {r}") ++
  sn.versionSets.map (fun e => s!"{tag}-vs {e.1} name {e.2.name} match" ++ nl e.2.matching) ++
  sn.unions.map (fun e => s!"{tag}-union {e.1} vs" ++ nl e.2) ++
  sn.packages.map (fun e => s!"{tag}-pkg {e.1} cands" ++ nl e.2.cands ++ " excl" ++ e.2.excluded.foldl (fun s x => s ++ s!" {x.1}:{x.2}") "") ++
  [s!"{tag}-strings" ++ nl sn.strings]

def containsSub (s sub : String) : Bool := (s.splitOn sub).length > 1

def runSnapshot (lines : List String) : List String :=
  let caseLines := lines.filter (fun l => !l.startsWith "> ")
  let impl := (lines.filter (fun l => l.startsWith "> ")).map (fun l => (l.drop 2).toString)
  let U := parseUniverse caseLines
  let P := ((caseLines.find? (fun l => l.startsWith "problem ")).map parseProblem).getD {}
  let seeds := (words ((caseLines.find? (fun l => l.startsWith "seeds ")).getD "seeds")).drop 1
  let names := ((seeds.dropWhile (· != "names")).drop 1).takeWhile (fun w => w != "vs" && w != "solvs") |>.map nat!
  let vss := ((seeds.dropWhile (· != "vs")).drop 1).takeWhile (fun w => w != "solvs") |>.map nat!
  let solvs := ((seeds.dropWhile (· != "solvs")).drop 1).map nat!
  let sn := capture U names vss solvs
  -- a problem that names version sets / unions / solvables the universe does not have is not an input of C16
  -- (the shrinker must not reduce a failing case to one of these)
  let refsOk := P.reqs.all (fun r => match r with
      | .single v => (U.vsets.lookup v).isSome
      | .union u => (U.unions.lookup u).isSome) &&
    P.constraints.all (fun v => (U.vsets.lookup v).isSome) && P.soft.all (fun s => (U.solvs.lookup s).isSome)
  if !refsOk then ["info not-wf"] else
  -- 1. the captured contents, before and after the serde round-trip
  let expSnap := dumpSnap "snap" sn
  let gotSnap := impl.filter (fun l => l.startsWith "snap-")
  let gotSerde := (impl.filter (fun l => l.startsWith "serde-")).map (fun l => "snap" ++ (l.drop 5).toString)
  let firstDiff (a b : List String) : String :=
    match (a.zip b).find? (fun p => p.1 != p.2) with
    | some (x, y) => s!"implementation `{x}` model `{y}`"
    | none => s!"implementation has {a.length} lines, model {b.length}"
  let o1 := if gotSnap == expSnap then [] else [s!"oracle-fail C16 capture-differs: the snapshot does not store the provider's answers: {firstDiff gotSnap expSnap}"]
  let o2 := if gotSerde == gotSnap then [] else [s!"oracle-fail C16,C19 serde-differs: after serialise/deserialise the snapshot has different contents: {firstDiff gotSerde gotSnap}"]
  -- 2. additional version sets
  let adds := (caseLines.filter (fun l => l.startsWith "add ")).map (fun l => match words l with | [_, n, m] => (nat! n, m) | _ => (0, "*"))
  let usable := adds.filter (fun a => (sn.packages.lookup a.1).isSome)
  let addedInfos : List VsInfo := usable.map (fun a =>
    let cands := ((sn.packages.lookup a.1).map (·.cands)).getD []
    { name := a.1, matching := cands.filter (fun s => a.2 == "*" || containsSub (toString s) a.2) })
  let expectIds := (List.range usable.length).map (fun k => addedId sn k)
  let gotIds := ((impl.find? (fun l => l.startsWith "viasnap-added")).map (fun l => ((words l).drop 1).filter (· != "-") |>.map nat!)).getD []
  let captured := sn.versionSets.map (·.1)
  let o3 := (if gotIds.any (fun i => captured.contains i) then
      [s!"oracle-fail C16 id-alias: add_package_requirement returned an id that aliases a captured version set: [{nl gotIds}] captured [{nl captured}]"] else []) ++
    (if gotIds.eraseDups.length != gotIds.length then ["oracle-fail C16 id-alias: add_package_requirement returned the same id twice"] else [])
  -- 3. solving through the snapshot = solving live (with the added version sets, matching computed from the live data)
  let addedVs := (gotIds.zip addedInfos).map (fun p => (p.1, p.2))
  let U' : Universe := { U with vsets := addedVs ++ U.vsets, pkgs := U.pkgs.map (fun np => (np.1, { np.2 with favored := none, locked := none })) }
  let P' : Problem := { P with reqs := P.reqs ++ gotIds.map Req.single }
  let solvable := decideSolvable U' P'
  let res (tag : String) : String := ((impl.find? (fun l => l.startsWith (tag ++ " "))).map (fun l => (l.drop (tag.length + 1)).toString)).getD "missing"
  let checkRun (tag : String) : List String :=
    let r := res tag
    if r.startsWith "ok" then
      let sol := ((words r).drop 1).map nat!
      (if solvable then [] else [s!"oracle-fail C16 verdict: solving through the snapshot ({tag}) found a solution but the live provider's problem has none"]) ++
      (if validB U' P' sol [] then [] else [s!"oracle-fail C16 invalid-vs-live: the solution [{nl sol}] found through the snapshot ({tag}) violates the live provider's data: {validWhy U' P' sol []}"])
    else if r == "unsat" then
      (if solvable then [s!"oracle-fail C16 verdict: solving through the snapshot ({tag}) is Unsolvable but the live provider's problem has a solution"] else [])
    else [s!"oracle-fail C16,C04 snapshot-outcome: {tag} ended with `{r}`"]
  let o4 := checkRun "viasnap" ++ checkRun "viaserde"
  -- (the two solutions may differ: union members and matching sets are stored as hash sets)
  let o5 := if ((res "viasnap").startsWith "ok") == ((res "viaserde").startsWith "ok") then [] else [s!"oracle-fail C16 serde-solve-differs: `{res "viasnap"}` before and `{res "viaserde"}` after the serde round-trip"]
  let live := res "live"
  let o6 := if adds.isEmpty then
      (if (live.startsWith "ok") != ((res "viasnap").startsWith "ok") then [s!"oracle-fail C16 verdict: live `{live}` vs snapshot `{res "viasnap"}`"] else [])
    else []
  -- 4. the provider's candidate preference order is preserved: when the first choices of the live data (sort order,
  --    union members as the live provider lists them) are mutually compatible, the snapshot must give exactly them (C07)
  let o7 := if !P'.soft.isEmpty then [] else
    match preferredConsistent U' P' with
    | some pref =>
      (["viasnap", "viaserde"].flatMap (fun tag =>
        let r := res tag
        if r.startsWith "ok" then
          let sol := ((words r).drop 1).map nat!
          if sameSet sol pref then [] else
            [s!"oracle-fail C16 preference-lost: the live provider's first choices [{nl pref}] are mutually compatible, but solving through the snapshot ({tag}) gives [{nl sol}]"]
        else [])) ++ ["info preferred-consistent 1"]
    | none => []
  -- 5. the closure certificate behind `C16.snapshot_solvable_agree` / `snapshot_valid_agree`: on the captured solvables and
  --    version sets (plus the added ones) the universe the snapshot denotes and the live universe give the same answers,
  --    and that part of the universe is closed and contains what the problem mentions
  let US := toUniverse sn addedVs
  let capS := sn.solvables.map (·.1)
  let capV := sn.versionSets.map (·.1) ++ addedVs.map (·.1)
  let o8 := if subAgreeB U' US capS capV P' then ["info closure-certificate 1"] else
    ["oracle-fail C16 closure-certificate: the captured part of the universe is not closed, or the snapshot's answers differ from the live provider's on it"]
  let o9 := (["viasnap", "viaserde"].flatMap (fun tag =>
    let r := res tag
    if r.startsWith "ok" then
      let sol := ((words r).drop 1).map nat!
      if sol.all (fun s => capS.contains s) then [] else
        [s!"oracle-fail C16 outside-capture: the solution [{nl sol}] found through the snapshot ({tag}) contains a solvable that was not captured"]
    else []))
  o1 ++ o2 ++ o3 ++ o4 ++ o5 ++ o6 ++ o7 ++ o8 ++ o9 ++ [s!"info snapshot solvables {sn.solvables.length} vs {sn.versionSets.length} added {gotIds.length} solvable {solvable}"]

end Resolvo.Drv
