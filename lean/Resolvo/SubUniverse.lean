import Resolvo.Spec
/-!
# Two providers that agree on a closed part of the universe are interchangeable (C16)

`SubAgree U U' S V P`: `S` (solvables) and `V` (version sets) form a part of the universe that is closed under
"candidates of a version set" and "version sets of the requirements / constrains of a solvable", contains what the
problem mentions, and on which the two universes `U` (the live provider) and `U'` (what a snapshot denotes) give the
same answers. Then, for the problem `P`:

* a selection inside `S` is valid for `U'` iff it is valid for `U` (`valid_agree`): solutions found through the
  snapshot are valid against the live data and vice versa;
* the problem is solvable for `U` iff it is solvable for `U'` (`solvable_agree`): same verdict.

`subAgreeB` decides the relation; the C16 check evaluates it on every generated snapshot.
-/
namespace Resolvo

structure SubAgree (U U' : Universe) (S V : List Nat) (P : Problem) : Prop where
  solv : ∀ s ∈ S, U'.deps s = U.deps s ∧ U'.nameOf s = U.nameOf s ∧ U'.excluded s = U.excluded s ∧
    U'.lockedOut s = U.lockedOut s
  vsets : ∀ v ∈ V, (∀ x, x ∈ U'.candsOf v ↔ x ∈ U.candsOf v) ∧ (∀ x, x ∈ U'.nonMatching v ↔ x ∈ U.nonMatching v) ∧
    ∀ x ∈ U.candsOf v, x ∈ S
  closed : ∀ s ∈ S, ∀ reqs cons, U.deps s = .known reqs cons →
    (∀ r ∈ reqs, U'.reqVersionSets r = U.reqVersionSets r ∧ ∀ v ∈ U.reqVersionSets r, v ∈ V) ∧ ∀ v ∈ cons, v ∈ V
  rootReqs : ∀ r ∈ P.reqs, U'.reqVersionSets r = U.reqVersionSets r ∧ ∀ v ∈ U.reqVersionSets r, v ∈ V
  rootCons : ∀ v ∈ P.constraints, v ∈ V

def sameSetB (a b : List Nat) : Bool := a.all (fun x => b.contains x) && b.all (fun x => a.contains x)

theorem sameSetB_iff (a b : List Nat) : sameSetB a b = true ↔ ∀ x, x ∈ a ↔ x ∈ b := by
  unfold sameSetB
  simp only [Bool.and_eq_true, List.all_eq_true, List.contains_iff_mem]
  constructor
  · rintro ⟨h1, h2⟩ x; exact ⟨h1 x, h2 x⟩
  · intro h; exact ⟨fun x hx => (h x).mp hx, fun x hx => (h x).mpr hx⟩

def reqOkB (U U' : Universe) (V : List Nat) (r : Req) : Bool :=
  U'.reqVersionSets r == U.reqVersionSets r && (U.reqVersionSets r).all (fun v => V.contains v)

def subAgreeB (U U' : Universe) (S V : List Nat) (P : Problem) : Bool :=
  S.all (fun s =>
    U'.deps s == U.deps s && U'.nameOf s == U.nameOf s && U'.excluded s == U.excluded s && U'.lockedOut s == U.lockedOut s &&
    (match U.deps s with
     | .known reqs cons => reqs.all (reqOkB U U' V) && cons.all (fun v => V.contains v)
     | .unknown _ => true)) &&
  V.all (fun v => sameSetB (U'.candsOf v) (U.candsOf v) && sameSetB (U'.nonMatching v) (U.nonMatching v) &&
    (U.candsOf v).all (fun x => S.contains x)) &&
  P.reqs.all (reqOkB U U' V) && P.constraints.all (fun v => V.contains v)

theorem reqOkB_spec (U U' : Universe) (V : List Nat) (r : Req) (h : reqOkB U U' V r = true) :
    U'.reqVersionSets r = U.reqVersionSets r ∧ ∀ v ∈ U.reqVersionSets r, v ∈ V := by
  unfold reqOkB at h
  simp only [Bool.and_eq_true, beq_iff_eq, List.all_eq_true, List.contains_iff_mem] at h
  exact h

theorem subAgreeB_sound (U U' : Universe) (S V : List Nat) (P : Problem) (h : subAgreeB U U' S V P = true) :
    SubAgree U U' S V P := by
  unfold subAgreeB at h
  simp only [Bool.and_eq_true, List.all_eq_true] at h
  obtain ⟨⟨⟨hS, hV⟩, hR⟩, hC⟩ := h
  refine ⟨?_, ?_, ?_, ?_, ?_⟩
  · intro s hs
    have := hS s hs
    simp only [Bool.and_eq_true, beq_iff_eq] at this
    exact ⟨this.1.1.1.1, this.1.1.1.2, this.1.1.2, this.1.2⟩
  · intro v hv
    have := hV v hv
    simp only [Bool.and_eq_true, List.all_eq_true, List.contains_iff_mem] at this
    exact ⟨(sameSetB_iff _ _).mp this.1.1, (sameSetB_iff _ _).mp this.1.2, this.2⟩
  · intro s hs reqs cons hd
    have := hS s hs
    have h2 := this.2
    rw [hd] at h2
    simp only [Bool.and_eq_true, List.all_eq_true, List.contains_iff_mem] at h2
    exact ⟨fun r hr => reqOkB_spec U U' V r (h2.1 r hr), h2.2⟩
  · intro r hr; exact reqOkB_spec U U' V r (hR r hr)
  · intro v hv; exact List.contains_iff_mem.mp (hC v hv)

/-! ### the two universes agree on requirements inside the closed part -/

theorem mem_reqCands (U : Universe) (r : Req) (c : Nat) : c ∈ U.reqCands r ↔ ∃ v ∈ U.reqVersionSets r, c ∈ U.candsOf v := by
  unfold Universe.reqCands
  simp [List.mem_flatMap]

theorem depsMet_agree (U U' : Universe) (S V : List Nat) (P : Problem) (h : SubAgree U U' S V P) (sel : List Nat)
    (reqs : List Req) (cons : List Nat)
    (hr : ∀ r ∈ reqs, U'.reqVersionSets r = U.reqVersionSets r ∧ ∀ v ∈ U.reqVersionSets r, v ∈ V)
    (hc : ∀ v ∈ cons, v ∈ V) : DepsMet U' sel reqs cons ↔ DepsMet U sel reqs cons := by
  unfold DepsMet
  constructor
  · rintro ⟨h1, h2⟩
    refine ⟨fun r hrm => ?_, fun vs hvs t ht => ?_⟩
    · obtain ⟨c, hc1, hc2⟩ := h1 r hrm
      obtain ⟨v, hv, hcv⟩ := (mem_reqCands U' r c).mp hc1
      rw [(hr r hrm).1] at hv
      exact ⟨c, (mem_reqCands U r c).mpr ⟨v, hv, ((h.vsets v ((hr r hrm).2 v hv)).1 c).mp hcv⟩, hc2⟩
    · exact h2 vs hvs t (((h.vsets vs (hc vs hvs)).2.1 t).mpr ht)
  · rintro ⟨h1, h2⟩
    refine ⟨fun r hrm => ?_, fun vs hvs t ht => ?_⟩
    · obtain ⟨c, hc1, hc2⟩ := h1 r hrm
      obtain ⟨v, hv, hcv⟩ := (mem_reqCands U r c).mp hc1
      refine ⟨c, (mem_reqCands U' r c).mpr ⟨v, by rw [(hr r hrm).1]; exact hv, ((h.vsets v ((hr r hrm).2 v hv)).1 c).mpr hcv⟩, hc2⟩
    · exact h2 vs hvs t (((h.vsets vs (hc vs hvs)).2.1 t).mp ht)

/-- **Solutions found through the snapshot are valid against the live data, and vice versa.** -/
theorem valid_agree (U U' : Universe) (S V : List Nat) (P : Problem) (h : SubAgree U U' S V P) (sel : List Nat)
    (hsub : ∀ s ∈ sel, s ∈ S) : Valid U' P sel [] ↔ Valid U P sel [] := by
  unfold Valid
  constructor
  · rintro ⟨h1, h2, h3, h4⟩
    refine ⟨(depsMet_agree U U' S V P h sel _ _ h.rootReqs h.rootCons).mp h1, ?_, ?_, ?_⟩
    · intro s hs
      obtain ⟨reqs, cons, hd, hm⟩ := h2 s hs
      have hd' : U.deps s = .known reqs cons := by rw [← (h.solv s (hsub s hs)).1]; exact hd
      obtain ⟨c1, c2⟩ := h.closed s (hsub s hs) reqs cons hd'
      exact ⟨reqs, cons, hd', (depsMet_agree U U' S V P h sel _ _ c1 c2).mp hm⟩
    · intro s hs hne
      obtain ⟨e1, e2⟩ := h3 s hs hne
      obtain ⟨_, _, he, hl⟩ := h.solv s (hsub s hs)
      exact ⟨by rw [← he]; exact e1, by rw [← hl]; exact e2⟩
    · intro s hs t ht hn
      apply h4 s hs t ht
      rw [(h.solv s (hsub s hs)).2.1, (h.solv t (hsub t ht)).2.1]; exact hn
  · rintro ⟨h1, h2, h3, h4⟩
    refine ⟨(depsMet_agree U U' S V P h sel _ _ h.rootReqs h.rootCons).mpr h1, ?_, ?_, ?_⟩
    · intro s hs
      obtain ⟨reqs, cons, hd, hm⟩ := h2 s hs
      obtain ⟨c1, c2⟩ := h.closed s (hsub s hs) reqs cons hd
      exact ⟨reqs, cons, by rw [(h.solv s (hsub s hs)).1]; exact hd, (depsMet_agree U U' S V P h sel _ _ c1 c2).mpr hm⟩
    · intro s hs hne
      obtain ⟨e1, e2⟩ := h3 s hs hne
      obtain ⟨_, _, he, hl⟩ := h.solv s (hsub s hs)
      exact ⟨by rw [he]; exact e1, by rw [hl]; exact e2⟩
    · intro s hs t ht hn
      apply h4 s hs t ht
      rw [← (h.solv s (hsub s hs)).2.1, ← (h.solv t (hsub t ht)).2.1]; exact hn

/-- a valid selection of the live universe stays valid when everything outside the closed part is dropped -/
theorem valid_restrict (U U' : Universe) (S V : List Nat) (P : Problem) (h : SubAgree U U' S V P) (sel : List Nat)
    (hv : Valid U P sel []) : Valid U P (sel.filter (fun s => S.contains s)) [] := by
  have hin : ∀ c, c ∈ sel → c ∈ S → c ∈ sel.filter (fun s => S.contains s) :=
    fun c h1 h2 => List.mem_filter.mpr ⟨h1, List.contains_iff_mem.mpr h2⟩
  have hout : ∀ c, c ∈ sel.filter (fun s => S.contains s) → c ∈ sel ∧ c ∈ S :=
    fun c hc => ⟨(List.mem_filter.mp hc).1, List.contains_iff_mem.mp (List.mem_filter.mp hc).2⟩
  have hmet : ∀ reqs cons, (∀ r ∈ reqs, ∀ v ∈ U.reqVersionSets r, v ∈ V) → DepsMet U sel reqs cons →
      DepsMet U (sel.filter (fun s => S.contains s)) reqs cons := by
    intro reqs cons hcl ⟨m1, m2⟩
    refine ⟨fun r hr => ?_, fun vs hvs t ht hm => m2 vs hvs t ht (hout t hm).1⟩
    obtain ⟨c, hc1, hc2⟩ := m1 r hr
    obtain ⟨v, hvr, hcv⟩ := (mem_reqCands U r c).mp hc1
    exact ⟨c, hc1, hin c hc2 ((h.vsets v (hcl r hr v hvr)).2.2 c hcv)⟩
  obtain ⟨h1, h2, h3, h4⟩ := hv
  refine ⟨hmet _ _ (fun r hr => (h.rootReqs r hr).2) h1, ?_, ?_, ?_⟩
  · intro s hs
    obtain ⟨hs1, hs2⟩ := hout s hs
    obtain ⟨reqs, cons, hd, hm⟩ := h2 s hs1
    exact ⟨reqs, cons, hd, hmet _ _ (fun r hr => ((h.closed s hs2 reqs cons hd).1 r hr).2) hm⟩
  · intro s hs hne; exact h3 s (hout s hs).1 hne
  · intro s hs t ht hn; exact h4 s (hout s hs).1 t (hout t ht).1 hn

/-- the same in the snapshot's universe -/
theorem valid_restrict' (U U' : Universe) (S V : List Nat) (P : Problem) (h : SubAgree U U' S V P) (sel : List Nat)
    (hv : Valid U' P sel []) : Valid U' P (sel.filter (fun s => S.contains s)) [] := by
  have hin : ∀ c, c ∈ sel → c ∈ S → c ∈ sel.filter (fun s => S.contains s) :=
    fun c h1 h2 => List.mem_filter.mpr ⟨h1, List.contains_iff_mem.mpr h2⟩
  have hout : ∀ c, c ∈ sel.filter (fun s => S.contains s) → c ∈ sel ∧ c ∈ S :=
    fun c hc => ⟨(List.mem_filter.mp hc).1, List.contains_iff_mem.mp (List.mem_filter.mp hc).2⟩
  have hmet : ∀ reqs cons, (∀ r ∈ reqs, U'.reqVersionSets r = U.reqVersionSets r ∧ ∀ v ∈ U.reqVersionSets r, v ∈ V) →
      DepsMet U' sel reqs cons → DepsMet U' (sel.filter (fun s => S.contains s)) reqs cons := by
    intro reqs cons hcl ⟨m1, m2⟩
    refine ⟨fun r hr => ?_, fun vs hvs t ht hm => m2 vs hvs t ht (hout t hm).1⟩
    obtain ⟨c, hc1, hc2⟩ := m1 r hr
    obtain ⟨v, hvr, hcv⟩ := (mem_reqCands U' r c).mp hc1
    rw [(hcl r hr).1] at hvr
    have hvV := (hcl r hr).2 v hvr
    exact ⟨c, hc1, hin c hc2 ((h.vsets v hvV).2.2 c (((h.vsets v hvV).1 c).mp hcv))⟩
  obtain ⟨h1, h2, h3, h4⟩ := hv
  refine ⟨hmet _ _ h.rootReqs h1, ?_, ?_, ?_⟩
  · intro s hs
    obtain ⟨hs1, hs2⟩ := hout s hs
    obtain ⟨reqs, cons, hd, hm⟩ := h2 s hs1
    have hd' : U.deps s = .known reqs cons := by rw [← (h.solv s hs2).1]; exact hd
    exact ⟨reqs, cons, hd, hmet _ _ (h.closed s hs2 reqs cons hd').1 hm⟩
  · intro s hs hne; exact h3 s (hout s hs).1 hne
  · intro s hs t ht hn; exact h4 s (hout s hs).1 t (hout t ht).1 hn

theorem subAgree_hard (U U' : Universe) (S V : List Nat) (P : Problem) (h : SubAgree U U' S V P) :
    SubAgree U U' S V P.hard := ⟨h.solv, h.vsets, h.closed, h.rootReqs, h.rootCons⟩

/-- **Same verdict**: the problem has a solution for the live provider iff it has one for the snapshot. -/
theorem solvable_agree (U U' : Universe) (S V : List Nat) (P : Problem) (h : SubAgree U U' S V P) :
    Solvable U' P ↔ Solvable U P := by
  have hh := subAgree_hard U U' S V P h
  have hsubf : ∀ sel : List Nat, ∀ s ∈ sel.filter (fun s => S.contains s), s ∈ S :=
    fun sel s hs => List.contains_iff_mem.mp (List.mem_filter.mp hs).2
  constructor
  · rintro ⟨sel, hv⟩
    have hv' := valid_restrict' U U' S V P.hard hh sel hv
    exact ⟨_, (valid_agree U U' S V P.hard hh _ (hsubf sel)).mp hv'⟩
  · rintro ⟨sel, hv⟩
    have hv' := valid_restrict U U' S V P.hard hh sel hv
    exact ⟨_, (valid_agree U U' S V P.hard hh _ (hsubf sel)).mpr hv'⟩

end Resolvo
