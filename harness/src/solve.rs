//! Runs the real solver on a case (universe + problem + config) and prints canonical observations.
use crate::gen::{self, Kind};
use crate::provider::*;
use crate::rng::Rng;
use crate::universe::*;
use resolvo::conflict::{ConflictCause, ConflictEdge, ConflictNode};
use resolvo::{Problem as RProblem, SolvableId, Solver, UnsolvableOrCancelled, VersionSetId};
use std::cell::RefCell;
use std::panic::{catch_unwind, AssertUnwindSafe};
use std::rc::Rc;

#[derive(Clone, Debug)]
pub struct Config {
    pub mode: String,        // sync | async
    pub sched: String,       // fifo | lifo | rand:<seed>
    pub cancel: Option<usize>,
    pub cancel_call: Option<usize>,
    pub transient: bool,
    pub activity: Option<(f32, f32)>,
    pub gate_fs: bool,
    pub sort_peeks: bool,
    pub peek_join: bool,
    pub peek_cands: bool,
    pub render: bool,
}

impl Default for Config {
    fn default() -> Self { Config { mode: "sync".into(), sched: "fifo".into(), cancel: None, cancel_call: None, transient: false, activity: None, gate_fs: false, sort_peeks: false, peek_join: false, peek_cands: false, render: true } }
}

impl Config {
    pub fn to_line(&self) -> String {
        format!("config mode {} sched {} cancel {} transient {} activity {} gatefs {} sortpeeks {} peekjoin {} peekcands {} render {}",
            self.mode, self.sched, self.cancel.map(|c| c.to_string()).or(self.cancel_call.map(|c| format!("c{c}"))).unwrap_or("-".into()), self.transient as u8,
            self.activity.map(|(a, d)| format!("{a}:{d}")).unwrap_or("-".into()), self.gate_fs as u8, self.sort_peeks as u8, self.peek_join as u8, self.peek_cands as u8, self.render as u8)
    }
    pub fn from_line(l: &str) -> Config {
        let t: Vec<&str> = l.split(' ').filter(|s| !s.is_empty()).collect();
        let mut c = Config::default();
        let mut i = 1;
        while i + 1 < t.len() {
            match t[i] {
                "mode" => c.mode = t[i + 1].into(),
                "sched" => c.sched = t[i + 1].into(),
                "cancel" => { c.cancel = t[i + 1].parse().ok(); c.cancel_call = t[i + 1].strip_prefix('c').and_then(|x| x.parse().ok()); }
                "transient" => c.transient = t[i + 1] == "1",
                "activity" => c.activity = t[i + 1].split_once(':').map(|(a, d)| (a.parse().unwrap(), d.parse().unwrap())),
                "gatefs" => c.gate_fs = t[i + 1] == "1",
                "sortpeeks" => c.sort_peeks = t[i + 1] == "1",
                "peekjoin" => c.peek_join = t[i + 1] == "1",
                "peekcands" => c.peek_cands = t[i + 1] == "1",
                "render" => c.render = t[i + 1] == "1",
                _ => {}
            }
            i += 2;
        }
        c
    }
}

pub fn gen_case(rng: &mut Rng, kind: Kind) -> Vec<String> {
    let g = gen::generate(rng, kind);
    let mut lines = g.u.to_lines();
    lines.push(g.p.to_line());
    let mut cfg = Config::default();
    cfg.activity = pick_activity(rng);
    lines.push(cfg.to_line());
    lines
}

/// `Solver::with_activity_params`: 1/4 of the cases run with non-default parameters of the decision heuristic
/// (C02 quantifies over them); all values are exactly representable decimals for f32 parsing on both sides.
pub fn pick_activity(rng: &mut Rng) -> Option<(f32, f32)> {
    // (the C++ interface has no `with_activity_params`: the C17 differential generates its cases with default parameters)
    if std::env::var_os("VERIF_NO_ACTIVITY").is_some() { return None; }
    if !rng.chance(1, 4) { return None; }
    Some(*rng.pick(&[(0.5, 0.9), (2.0, 0.5), (1.0, 1.0), (0.25, 0.75), (3.0, 0.99), (0.0, 0.95), (1.0, 0.0), (10.0, 0.125)]))
}

/// C12: a case whose cancellation plan is drawn from the polls / provider requests of the uncancelled run.
pub fn gen_cancel_case(rng: &mut Rng) -> Vec<String> {
    let kind = *rng.pick(&[Kind::General, Kind::Tight, Kind::Hints, Kind::Soft, Kind::Lazy]);
    let g = gen::generate(rng, kind);
    let mut lines = g.u.to_lines();
    lines.push(g.p.to_line());
    // measure the uncancelled run
    let mut probe = lines.clone();
    probe.push(Config { render: false, ..Config::default() }.to_line());
    let out = run_case(&probe);
    let polls: usize = out.iter().find_map(|l| l.strip_prefix("polls ").and_then(|x| x.parse().ok())).unwrap_or(1);
    let calls: usize = out.iter().find(|l| l.starts_with("calls")).map(|l| l.split(' ').filter(|w| w.starts_with('c') && *w != "calls" || w.starts_with('d')).count()).unwrap_or(0);
    let mut cfg = Config { render: false, ..Config::default() };
    cfg.transient = rng.chance(1, 3);
    if calls > 0 && rng.chance(1, 2) { cfg.cancel_call = Some(rng.below(calls as u64) as usize); }
    else { cfg.cancel = Some(rng.below(polls as u64 + 1) as usize); }
    lines.push(cfg.to_line());
    lines
}

/// C12 with requests in flight: as `gen_cancel_case` with an asynchronous provider (1/2 of the cases with asynchronous
/// filter/sort too) under a seeded schedule; the plan is drawn from the uncancelled run *under the same schedule*.
pub fn gen_cancel_async_case(rng: &mut Rng) -> Vec<String> {
    let kind = *rng.pick(&[Kind::General, Kind::Tight, Kind::Hints, Kind::Soft, Kind::Lazy]);
    let g = if rng.chance(1, 20) { let (u, p) = gen_big_union(rng); gen::Generated { u, p } } else { gen::generate(rng, kind) };
    let mut lines = g.u.to_lines();
    lines.push(g.p.to_line());
    let mut cfg = Config { render: false, mode: "async".into(), ..Config::default() };
    cfg.sched = match rng.below(4) { 0 => "fifo".into(), 1 => "lifo".into(), _ => format!("rand:{}", rng.below(1 << 30)) };
    cfg.gate_fs = rng.chance(1, 2);
    // 1/3: a provider whose sort_candidates looks ahead through the SolverCache, mostly concurrently (requests issued from
    // inside the provider overlap with the encoder's own; a refused request makes the provider drop the others)
    cfg.sort_peeks = rng.chance(1, 3);
    cfg.peek_join = cfg.sort_peeks && rng.chance(2, 3);
    cfg.peek_cands = cfg.peek_join && rng.chance(1, 2);
    let mut probe = lines.clone();
    probe.push(cfg.to_line());
    let out = run_case(&probe);
    let polls: usize = out.iter().find_map(|l| l.strip_prefix("polls ").and_then(|x| x.parse().ok())).unwrap_or(1);
    let calls: usize = out.iter().find(|l| l.starts_with("calls")).map(|l| l.split(' ').filter(|w| w.starts_with('c') && *w != "calls" || w.starts_with('d')).count()).unwrap_or(0);
    // (a provider cannot hand a refusal it received inside sort_candidates back to the solver: only a latched signal is
    // guaranteed to reach the solver's own polls, so look-ahead providers get no transient plans)
    cfg.transient = !cfg.sort_peeks && rng.chance(1, 3);
    if calls > 0 && rng.chance(1, 2) { cfg.cancel_call = Some(rng.below(calls as u64) as usize); }
    else { cfg.cancel = Some(rng.below(polls as u64 + 1) as usize); }
    lines.push(cfg.to_line());
    lines
}

/// C13: several solves on one solver (same or different problems, optionally with a transient
/// cancellation somewhere in the history so that later solves run after a Cancelled outcome).
/// Two long dependency chains, solved several times on one solver: `p0 -> p1 -> ... -> p(N-1)` with one candidate per
/// package (a solve that enters it `len` packages before the end has exactly `len` solvable variables), and a chain of
/// packages with two candidates each whose preferred candidate is usually excluded (many variables, half of them
/// assigned false). The lengths are biased towards 63..65 and 127..129: state that is reused between solves - and
/// anything chunked in 128 entries, like the watch map, which is indexed by literal = 2 x variable - changes shape exactly
/// there, which the small universes of the other shapes never reach.
fn gen_chain_reuse_case(rng: &mut Rng, async_mode: bool) -> Vec<String> {
    use crate::universe::{Deps, Pkg, Solv, Universe, VSet};
    let n = 134u32;
    let m = rng.range(36, 48) as u32;
    let mut u = Universe::default();
    for i in 0..n {
        u.pkgs.insert(i, Pkg { cands: vec![i], ..Default::default() });
        u.vsets.insert(i, VSet { name: i, matching: vec![i] });
        let reqs = if i + 1 < n { vec![Req::Single(i + 1)] } else { vec![] };
        u.solvs.insert(i, Solv { name: i, rank: 0, deps: Deps::Known { reqs, cons: vec![] } });
    }
    let mut next_s = n;
    for k in 0..m {
        let name = n + k;
        let cs = vec![next_s, next_s + 1];
        let mut pk = Pkg { cands: cs.clone(), ..Default::default() };
        if rng.chance(3, 4) { pk.excluded.push((cs[0], 1)); }
        u.pkgs.insert(name, pk);
        u.vsets.insert(name, VSet { name, matching: cs.clone() });
        for (j, &c) in cs.iter().enumerate() {
            let reqs = if k + 1 < m { vec![Req::Single(name + 1)] } else { vec![] };
            u.solvs.insert(c, Solv { name, rank: j as u32, deps: Deps::Known { reqs, cons: vec![] } });
        }
        next_s += 2;
    }
    let mut lines = u.to_lines();
    let pick_len = |rng: &mut Rng| -> u32 {
        match rng.below(8) { 0 | 1 => 64, 2 => 128, 3 => rng.range(62, 66) as u32, 4 => rng.range(126, 130) as u32, 5 => rng.range(30, 34) as u32, _ => rng.range(1, n as u64) as u32 }
    };
    let mut probs: Vec<Problem> = Vec::new();
    for k in 0..rng.range(2, 3) {
        if k > 0 || rng.chance(1, 3) {
            let mut p = Problem::default();
            p.reqs.push(Req::Single(n + rng.below(4) as u32));
            probs.push(p);
        }
        let len = pick_len(rng).min(n);
        let mut p = Problem::default();
        p.reqs.push(Req::Single(n - len));
        probs.push(p);
    }
    { let mut p = Problem::default(); p.reqs.push(Req::Single(n + rng.below(4) as u32)); probs.push(p); }
    if rng.chance(1, 2) { let p0 = probs[0].clone(); probs.push(p0); }
    for p in &probs { lines.push(p.to_line()); }
    let mut cfg = Config { render: false, ..Config::default() };
    if async_mode {
        cfg.mode = "async".into();
        cfg.sched = match rng.below(3) { 0 => "fifo".into(), 1 => "lifo".into(), _ => format!("rand:{}", rng.below(1 << 30)) };
    }
    lines.push(cfg.to_line());
    lines
}

pub fn gen_reuse_case(rng: &mut Rng, async_mode: bool) -> Vec<String> {
    if rng.chance(1, 60) { return gen_chain_reuse_case(rng, async_mode); }
    let kind = *rng.pick(&[Kind::General, Kind::Tight, Kind::Hints, Kind::Hints, Kind::Soft, Kind::Soft, Kind::Lazy, Kind::FalseThenTrue]);
    let g = gen::generate(rng, kind);
    let mut lines = g.u.to_lines();
    let vss: Vec<u32> = g.u.vsets.keys().copied().collect();
    let unions: Vec<u32> = g.u.unions.keys().copied().collect();
    let solvs: Vec<u32> = g.u.solvs.keys().copied().collect();
    let mut probs = vec![g.p.clone()];
    for _ in 0..rng.range(1, 3) {
        if rng.chance(1, 3) { probs.push(probs[rng.below(probs.len() as u64) as usize].clone()); continue; }
        if rng.chance(1, 2) {
            // a variation of an earlier problem: same requirements plus/minus one item (most metadata is cached,
            // but the search takes a different path)
            let mut p = probs[rng.below(probs.len() as u64) as usize].clone();
            match rng.below(5) {
                0 => p.reqs.push(Req::Single(*rng.pick(&vss))),
                1 => p.cons.push(*rng.pick(&vss)),
                2 => { if p.reqs.len() > 1 { let k = rng.below(p.reqs.len() as u64) as usize; p.reqs.remove(k); } else { p.soft.push(*rng.pick(&solvs)); } }
                3 => { p.soft.clear(); p.cons.clear(); }
                _ => { for _ in 0..rng.range(1, 2) { p.soft.insert(0, *rng.pick(&solvs)); } }
            }
            probs.push(p);
            continue;
        }
        let mut p = Problem::default();
        for _ in 0..rng.range(1, 3) {
            if !unions.is_empty() && rng.chance(1, 6) { p.reqs.push(Req::Union(*rng.pick(&unions))); } else { p.reqs.push(Req::Single(*rng.pick(&vss))); }
        }
        if rng.chance(1, 5) { p.cons.push(*rng.pick(&vss)); }
        if rng.chance(1, 2) { for _ in 0..rng.range(1, 3) { p.soft.push(*rng.pick(&solvs)); } }
        probs.push(p);
    }
    // half of the histories end with the generated (conflict-prone) main problem, so that it is solved on a cache
    // already filled by the smaller solves before it (candidates with known dependencies that were never encoded)
    if rng.chance(1, 2) { probs.rotate_left(1); }
    // 1/3: a warm-up phase of 4-8 single-requirement solves in front, so that the dependencies of most solvables are
    // cached when the later problems are solved (every candidate is then "cheaply available" without any hint)
    if rng.chance(1, 3) {
        let mut warm: Vec<Problem> = Vec::new();
        for _ in 0..rng.range(4, 8) { let mut p = Problem::default(); p.reqs.push(Req::Single(*rng.pick(&vss))); warm.push(p); }
        warm.extend(probs.drain(..));
        probs = warm;
    }
    for p in &probs { lines.push(p.to_line()); }
    let mut cfg = Config { render: false, ..Config::default() };
    cfg.activity = pick_activity(rng);
    if async_mode {
        cfg.mode = "async".into();
        cfg.sched = match rng.below(3) { 0 => "fifo".into(), 1 => "lifo".into(), _ => format!("rand:{}", rng.below(1 << 30)) };
        cfg.gate_fs = rng.chance(1, 3);
    }
    if rng.chance(1, 2) {
        // measure the whole uncancelled history, then put a transient signal somewhere in it
        let mut probe = lines.clone();
        probe.push(cfg.to_line());
        let out = run_case(&probe);
        let polls: usize = out.iter().find_map(|l| l.strip_prefix("polls ").and_then(|x| x.parse().ok())).unwrap_or(1);
        let calls: usize = out.iter().filter(|l| l.starts_with("calls")).map(|l| l.split(' ').filter(|w| (w.starts_with('c') && *w != "calls") || w.starts_with('d')).count()).sum();
        cfg.transient = true;
        if calls > 0 && rng.chance(1, 2) { cfg.cancel_call = Some(rng.below(calls as u64) as usize); } else { cfg.cancel = Some(rng.below(polls as u64) as usize); }
    }
    lines.push(cfg.to_line());
    lines
}

/// A root requirement that is a union of 31..40 version sets over two packages (members of the two packages interleaved),
/// whose candidates have dependencies of their own: `futures::future::try_join_all` changes its implementation above 30
/// members, and every requirement future of the encoder is such a join.
pub fn gen_big_union(rng: &mut Rng) -> (Universe, Problem) {
    let mut u = Universe::default();
    let mut next_s = 0u32;
    let mut cands: Vec<Vec<u32>> = Vec::new();
    for name in 0..2u32 {
        let k = rng.range(3, 5) as u32;
        let cs: Vec<u32> = (0..k).map(|j| next_s + j).collect();
        next_s += k;
        u.pkgs.insert(name, Pkg { cands: cs.clone(), ..Default::default() });
        cands.push(cs);
    }
    // packages 2, 3: what the candidates of 0 / 1 depend on; package 4: an independent root requirement
    for name in 2..5u32 {
        let k = rng.range(1, 3) as u32;
        let cs: Vec<u32> = (0..k).map(|j| next_s + j).collect();
        next_s += k;
        u.pkgs.insert(name, Pkg { cands: cs.clone(), ..Default::default() });
        for (j, &c) in cs.iter().enumerate() { u.solvs.insert(c, Solv { name, rank: j as u32, deps: Deps::Known { reqs: vec![], cons: vec![] } }); }
        u.vsets.insert(100 + name, VSet { name, matching: cs.clone() });
    }
    for name in 0..2u32 {
        for (j, &c) in cands[name as usize].iter().enumerate() {
            u.solvs.insert(c, Solv { name, rank: j as u32, deps: Deps::Known { reqs: vec![Req::Single(102 + name)], cons: vec![] } });
        }
    }
    let n_members = rng.range(31, 40) as u32;
    let mut members: Vec<u32> = Vec::new();
    for v in 0..n_members {
        let name = if v < 2 { v } else { rng.below(2) as u32 };
        let pool = &cands[name as usize];
        let mut m: Vec<u32> = pool.iter().copied().filter(|_| rng.chance(1, 2)).collect();
        if m.is_empty() { m.push(*rng.pick(pool)); }
        u.vsets.insert(v, VSet { name, matching: m });
        members.push(v);
    }
    rng.shuffle(&mut members);
    u.unions.insert(0, members);
    let mut p = Problem::default();
    p.reqs.push(Req::Union(0));
    if rng.chance(1, 2) { p.reqs.push(Req::Single(104)); }
    if rng.chance(1, 2) { p.reqs.rotate_left(1); }
    (u, p)
}

/// Wide fan-outs: more than 128 requests implied at once. Either the root requires 129..170 distinct packages, or it
/// requires one package whose only candidate does, or three siblings (selected together) require 45..60 leaves each.
/// Every leaf has one or two candidates and no dependencies.
pub fn gen_wide_fanout(rng: &mut Rng) -> (Universe, Problem) {
    let mut u = Universe::default();
    let mut p = Problem::default();
    let mut next_s = 0u32;
    let mut next_name = 0u32;
    let mut leaf = |u: &mut Universe, rng: &mut Rng| -> u32 {
        let name = next_name; next_name += 1;
        let k = rng.range(1, 2) as u32;
        let cs: Vec<u32> = (0..k).map(|j| next_s + j).collect();
        next_s += k;
        u.pkgs.insert(name, Pkg { cands: cs.clone(), ..Default::default() });
        for (j, &c) in cs.iter().enumerate() { u.solvs.insert(c, Solv { name, rank: j as u32, deps: Deps::Known { reqs: vec![], cons: vec![] } }); }
        u.vsets.insert(name, VSet { name, matching: cs });
        name
    };
    match rng.below(3) {
        0 => { for _ in 0..rng.range(129, 170) { let n = leaf(&mut u, rng); p.reqs.push(Req::Single(n)); } }
        shape => {
            let parents = if shape == 1 { 1 } else { 3 };
            let per = if shape == 1 { rng.range(129, 170) } else { rng.range(45, 60) };
            let mut all: Vec<Vec<u32>> = Vec::new();
            for _ in 0..parents { all.push((0..per).map(|_| leaf(&mut u, rng)).collect()); }
            for leaves in all {
                let name = next_name; next_name += 1;
                let c = next_s; next_s += 1;
                u.pkgs.insert(name, Pkg { cands: vec![c], ..Default::default() });
                u.solvs.insert(c, Solv { name, rank: 0, deps: Deps::Known { reqs: leaves.iter().map(|&l| Req::Single(l)).collect(), cons: vec![] } });
                u.vsets.insert(name, VSet { name, matching: vec![c] });
                p.reqs.push(Req::Single(name));
            }
        }
    }
    (u, p)
}

/// A provider that looks ahead meets package-level clauses: the root requires `p`; `p=0` requires `s1` .. `sk` (one
/// candidate each, so they are selected and encoded together); some of them require `z`, whose *second* candidate depends
/// on `c` (so a look-ahead of `sort_candidates` requests the candidates of `c` although the selected `z=0` never asks for
/// them), another one requires `c` itself; `c` has an excluded (or locked-out) preferred candidate. Whatever the completion
/// order, the package-level clauses of `c` must be added.
pub fn gen_lookahead_excl(rng: &mut Rng) -> (Universe, Problem) {
    let mut u = Universe::default();
    let k = rng.range(2, 4) as u32;               // s1..sk : packages 1..=k
    let z_name = k + 1;
    let c_name = k + 2;
    let mut next_s = 0u32;
    // p
    u.pkgs.insert(0, Pkg { cands: vec![0], ..Default::default() });
    u.vsets.insert(0, VSet { name: 0, matching: vec![0] });
    u.solvs.insert(0, Solv { name: 0, rank: 0, deps: Deps::Known { reqs: (1..=k).map(Req::Single).collect(), cons: vec![] } });
    next_s += 1;
    let direct = 1 + rng.below(k as u64) as u32;   // this s requires c directly, the others require z
    for name in 1..=k {
        let sv = next_s; next_s += 1;
        u.pkgs.insert(name, Pkg { cands: vec![sv], ..Default::default() });
        u.vsets.insert(name, VSet { name, matching: vec![sv] });
        let reqs = if name == direct { vec![Req::Single(c_name)] } else { vec![Req::Single(z_name)] };
        u.solvs.insert(sv, Solv { name, rank: 0, deps: Deps::Known { reqs, cons: vec![] } });
    }
    // z: the preferred candidate has no dependencies, the others depend on c
    let nz = rng.range(2, 3) as u32;
    let zs: Vec<u32> = (0..nz).map(|j| next_s + j).collect();
    next_s += nz;
    u.pkgs.insert(z_name, Pkg { cands: zs.clone(), ..Default::default() });
    u.vsets.insert(z_name, VSet { name: z_name, matching: zs.clone() });
    for (j, &z) in zs.iter().enumerate() {
        let reqs = if j == 0 { vec![] } else { vec![Req::Single(c_name)] };
        u.solvs.insert(z, Solv { name: z_name, rank: j as u32, deps: Deps::Known { reqs, cons: vec![] } });
    }
    // c
    let nc = rng.range(2, 3) as u32;
    let cs: Vec<u32> = (0..nc).map(|j| next_s + j).collect();
    let mut pk = Pkg { cands: cs.clone(), ..Default::default() };
    if rng.chance(2, 3) { pk.excluded.push((cs[0], 0)); } else { pk.locked = Some(cs[1]); }
    u.pkgs.insert(c_name, pk);
    u.vsets.insert(c_name, VSet { name: c_name, matching: cs.clone() });
    for (j, &c) in cs.iter().enumerate() { u.solvs.insert(c, Solv { name: c_name, rank: j as u32, deps: Deps::Known { reqs: vec![], cons: vec![] } }); }
    let mut p = Problem::default();
    p.reqs.push(Req::Single(0));
    (u, p)
}

/// C10/C11: one solve with an asynchronous provider and a manual single-threaded executor.
pub fn gen_async_case(rng: &mut Rng, conflict_free: bool) -> Vec<String> {
    let kind = if conflict_free { Kind::ConflictFree } else { *rng.pick(&[Kind::General, Kind::Tight, Kind::Hints, Kind::Soft, Kind::Lazy, Kind::ConflictFree]) };
    let wide = !conflict_free && rng.chance(1, 150);
    let lookahead = !wide && !conflict_free && rng.chance(1, 15);
    let g = if wide { let (u, p) = gen_wide_fanout(rng); gen::Generated { u, p } }
        else if lookahead { let (u, p) = gen_lookahead_excl(rng); gen::Generated { u, p } }
        else if !conflict_free && rng.chance(1, 30) { let (u, p) = gen_big_union(rng); gen::Generated { u, p } } else { gen::generate(rng, kind) };
    let mut lines = g.u.to_lines();
    lines.push(g.p.to_line());
    let mut cfg = Config { render: false, mode: "async".into(), ..Config::default() };
    cfg.sched = match rng.below(4) { 0 => "fifo".into(), 1 => "lifo".into(), _ => format!("rand:{}", rng.below(1 << 30)) };
    if lookahead { cfg.sched = format!("rand:{}", rng.below(1 << 30)); }
    cfg.gate_fs = rng.chance(1, 3);
    cfg.activity = pick_activity(rng);
    // 1/5: a provider whose sort_candidates reads the candidates' dependencies through the SolverCache (as conda-style
    // providers do): its queries overlap with the solver's own outstanding requests (oracles only, not modelled)
    cfg.sort_peeks = lookahead || rng.chance(1, 3);
    cfg.peek_join = lookahead || (cfg.sort_peeks && rng.chance(2, 3));
    cfg.peek_cands = cfg.peek_join && (lookahead || rng.chance(1, 2));
    lines.push(cfg.to_line());
    lines
}

/// C15 (verdict level): one package with n candidates (n = 1..70, every power of two crossed) revealed in a
/// random order and grouping; the problem requires two different candidates (must be Unsolvable) or one (solvable).
pub fn gen_amo_solve_case(rng: &mut Rng, idx: usize) -> Vec<String> {
    let n = 1 + (idx % 70) as u32;
    let mut u = Universe::default();
    // package 0: the n candidates (ids 0..n), package 1: the revealer r (id n)
    let mut ids: Vec<u32> = (0..n).collect();
    rng.shuffle(&mut ids);
    let mut ranks: Vec<u32> = (0..n).collect();
    rng.shuffle(&mut ranks);
    for (k, &c) in ids.iter().enumerate() { u.solvs.insert(c, Solv { name: 0, rank: ranks[k], deps: Deps::Known { reqs: vec![], cons: vec![] } }); }
    u.pkgs.insert(0, Pkg { cands: ids.clone(), hint: if rng.chance(1, 3) { Hint::All } else { Hint::None }, ..Default::default() });
    // random partition of the candidates into groups, each a version set; the union lists them in random order
    let mut order = ids.clone();
    rng.shuffle(&mut order);
    let mut groups: Vec<Vec<u32>> = Vec::new();
    let mut i = 0usize;
    while i < order.len() { let k = rng.range(1, (order.len() - i).min(9) as u64) as usize; groups.push(order[i..i + k].to_vec()); i += k; }
    let mut vs_id = 0u32;
    let mut members = Vec::new();
    for g in &groups { u.vsets.insert(vs_id, VSet { name: 0, matching: g.clone() }); members.push(vs_id); vs_id += 1; }
    u.unions.insert(0, members.clone());
    u.solvs.insert(n, Solv { name: 1, rank: 0, deps: Deps::Known { reqs: if members.len() >= 2 { vec![Req::Union(0)] } else { vec![Req::Single(members[0])] }, cons: vec![] } });
    u.pkgs.insert(1, Pkg { cands: vec![n], ..Default::default() });
    let r_vs = vs_id; u.vsets.insert(r_vs, VSet { name: 1, matching: vec![n] }); vs_id += 1;
    let ci = *rng.pick(&ids);
    let vi = vs_id; u.vsets.insert(vi, VSet { name: 0, matching: vec![ci] }); vs_id += 1;
    let mut p = Problem::default();
    let pair = n >= 2 && rng.chance(1, 2);
    let mut reqs = vec![Req::Single(r_vs), Req::Single(vi)];
    if pair {
        let mut cj = *rng.pick(&ids); while cj == ci { cj = *rng.pick(&ids); }
        u.vsets.insert(vs_id, VSet { name: 0, matching: vec![cj] });
        reqs.push(Req::Single(vs_id));
    }
    rng.shuffle(&mut reqs);
    p.reqs = reqs;
    let mut lines = u.to_lines();
    lines.push(p.to_line());
    lines.push(format!("expect {}", if pair { "unsat" } else { "ok" }));
    lines.push(Config { render: false, ..Config::default() }.to_line());
    lines
}

fn hex(s: &str) -> String { s.bytes().map(|b| format!("{b:02x}")).collect() }

fn panic_line(e: Box<dyn std::any::Any + Send>) -> String {
    let msg = if let Some(s) = e.downcast_ref::<String>() { s.clone() } else if let Some(s) = e.downcast_ref::<&str>() { s.to_string() } else { "?".into() };
    let loc = crate::LAST_PANIC_LOC.with(|l| l.borrow().clone());
    format!("panic {loc} {}", msg.replace('\n', " ").chars().take(160).collect::<String>())
}

fn node_str(n: &ConflictNode) -> String {
    match n {
        ConflictNode::Solvable(s) => match s.solvable() { Some(s) => format!("s{}", s.0), None => "root".into() },
        ConflictNode::UnresolvedDependency => "unresolved".into(),
        ConflictNode::Excluded(r) => format!("excl{}", r.0),
    }
}

fn edge_str(e: &ConflictEdge) -> String {
    match e {
        ConflictEdge::Requires(resolvo::Requirement::Single(v)) => format!("req:v{}", v.0),
        ConflictEdge::Requires(resolvo::Requirement::Union(u)) => format!("req:u{}", u.0),
        ConflictEdge::Conflict(ConflictCause::Locked(s)) => format!("locked:{}", s.0),
        ConflictEdge::Conflict(ConflictCause::Constrains(v)) => format!("constrains:{}", v.0),
        ConflictEdge::Conflict(ConflictCause::ForbidMultipleInstances) => "forbid".into(),
        ConflictEdge::Conflict(ConflictCause::Excluded) => "excluded".into(),
    }
}

/// One `solve` on an existing solver; appends observation lines.
pub fn solve_once<RT: resolvo::runtime::AsyncRuntime>(solver: &mut Solver<TableProvider, RT>, p: &Problem, render: bool, out: &mut Vec<String>) {
    let problem = RProblem::new()
        .requirements(p.reqs.iter().map(to_requirement).collect())
        .constraints(p.cons.iter().map(|&v| VersionSetId(v)).collect())
        .soft_requirements(p.soft.iter().map(|&s| SolvableId(s)).collect::<Vec<_>>());
    let log_start = solver.provider().log.borrow().len();
    resolvo::verif::start();
    let r = catch_unwind(AssertUnwindSafe(|| solver.solve(problem)));
    let trace = resolvo::verif::take();
    let mut conflict = None;
    match r {
        Err(e) => out.push(format!("result {}", panic_line(e))),
        Ok(Ok(sol)) => {
            out.push("result ok".into());
            out.push(format!("solution{}", sol.iter().map(|s| format!(" {}", s.0)).collect::<String>()));
        }
        Ok(Err(UnsolvableOrCancelled::Cancelled(v))) => {
            let val = v.downcast_ref::<u64>().map(|x| x.to_string()).unwrap_or("?".into());
            out.push(format!("result cancelled {val}"));
        }
        Ok(Err(UnsolvableOrCancelled::Unsolvable(c))) => { out.push("result unsat".into()); conflict = Some(c); }
    }
    {
        let log = solver.provider().log.borrow();
        out.push(format!("calls{}", log[log_start..].iter().map(|c| format!(" {c}")).collect::<String>()));
    }
    for t in &trace { out.push(format!("t {t}")); }
    if let Some(c) = conflict {
        out.push(format!("conflict-clauses{}", c.verif_clauses().iter().map(|c| format!(" {c}")).collect::<String>()));
        let g = catch_unwind(AssertUnwindSafe(|| c.graph(solver)));
        match g {
            Err(e) => out.push(format!("graph {}", panic_line(e))),
            Ok(g) => {
                let mut edges: Vec<String> = g.graph.edge_indices().map(|e| {
                    let (a, b) = g.graph.edge_endpoints(e).unwrap();
                    format!("{}>{}:{}", node_str(&g.graph[a]), node_str(&g.graph[b]), edge_str(&g.graph[e]))
                }).collect();
                edges.sort();
                let mut nodes: Vec<String> = g.graph.node_indices().map(|n| node_str(&g.graph[n])).collect();
                nodes.sort();
                out.push(format!("graph-nodes {}", nodes.join(" ")));
                out.push(format!("graph-edges {}", edges.join(" ")));
                out.push(format!("graph-unresolved {}", g.unresolved_node.is_some() as u8));
                if render {
                    let gv = catch_unwind(AssertUnwindSafe(|| {
                        let mut buf = Vec::new();
                        g.graphviz(&mut buf, solver.provider(), true).unwrap();
                        String::from_utf8_lossy(&buf).to_string()
                    }));
                    match gv { Ok(s) => { out.push(format!("graphviz-len {}", s.len())); out.push(format!("graphviz-hex {}", hex(&s))); } Err(e) => out.push(format!("graphviz {}", panic_line(e))) }
                }
            }
        }
        if render {
            let m = catch_unwind(AssertUnwindSafe(|| c.display_user_friendly(solver).to_string()));
            match m { Ok(s) => out.push(format!("message {}", hex(&s))), Err(e) => out.push(format!("message {}", panic_line(e))) }
        }
    }
}

pub fn run_case(lines: &[String]) -> Vec<String> {
    let u = Universe::from_lines(lines);
    let probs: Vec<Problem> = lines.iter().filter(|l| l.starts_with("problem ")).map(|l| Problem::from_line(l)).collect();
    let cfg = lines.iter().find(|l| l.starts_with("config ")).map(|l| Config::from_line(l)).unwrap_or_default();
    let mut out = Vec::new();
    let mut provider = TableProvider::new(u);
    provider.sort_peeks_deps = cfg.sort_peeks;
    provider.sort_peeks_join = cfg.peek_join;
    provider.sort_peeks_cands_only = cfg.peek_cands;
    *provider.cancel.borrow_mut() = CancelPlan { at: cfg.cancel, at_call: cfg.cancel_call, transient: cfg.transient };
    if cfg.mode == "async" {
        let gates = Rc::new(Gates::default());
        provider.gates = Some(gates.clone());
        provider.gate_filter_sort = cfg.gate_fs;
        let schedule = match cfg.sched.as_str() {
            "fifo" => Schedule::Fifo,
            "lifo" => Schedule::Lifo,
            s if s.starts_with("rand:") => Schedule::Random(RefCell::new(Rng::new(s[5..].parse().unwrap()))),
            s if s.starts_with("script:") => Schedule::Script(RefCell::new(s[7..].split(',').filter(|x| !x.is_empty()).map(|x| x.parse().unwrap()).collect())),
            _ => Schedule::Fifo,
        };
        let rt = ManualRuntime { gates: gates.clone(), schedule, max_steps: 100000 };
        let mut solver = Solver::new(provider).with_runtime(rt);
        if let Some((a, d)) = cfg.activity { solver = solver.with_activity_params(a, d); }
        for (i, p) in probs.iter().enumerate() {
            out.push(format!("solve {i}"));
            let ev_start = gates.events.borrow().len();
            solve_once(&mut solver, p, cfg.render, &mut out);
            for e in gates.events.borrow()[ev_start..].iter() { out.push(format!("ev {e}")); }
            out.push(format!("open-after {}", gates.open().len()));
            // requests still outstanding when the solve ended were abandoned with the solve's futures
            for g in gates.gates.borrow_mut().iter_mut() { if !g.done { g.done = true; g.waker = None; } }
        }
        out.push(format!("polls {}", solver.provider().polls.get()));
    } else {
        let mut solver = Solver::new(provider);
        if let Some((a, d)) = cfg.activity { solver = solver.with_activity_params(a, d); }
        for (i, p) in probs.iter().enumerate() {
            out.push(format!("solve {i}"));
            solve_once(&mut solver, p, cfg.render, &mut out);
        }
        out.push(format!("polls {}", solver.provider().polls.get()));
    }
    out
}
