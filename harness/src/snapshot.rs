//! C16: DependencySnapshot capture / SnapshotProvider / serde round-trip against the live provider.
use crate::gen::{self, Kind};
use crate::provider::*;
use crate::rng::Rng;
use crate::universe::*;
use resolvo::snapshot::DependencySnapshot;
use resolvo::{Dependencies, NameId, Problem as RProblem, Requirement, SolvableId, Solver, UnsolvableOrCancelled, VersionSetId};
use std::panic::{catch_unwind, AssertUnwindSafe};

pub fn gen_case(rng: &mut Rng) -> Vec<String> {
    let kind = *rng.pick(&[Kind::General, Kind::Tight, Kind::Hints, Kind::ConflictFree]);
    let sparse = rng.chance(2, 3);
    let mut g = gen::generate_opts(rng, kind, sparse);
    // the snapshot format represents neither favored nor locked candidates
    for p in g.u.pkgs.values_mut() { p.favored = None; p.locked = None; }
    let mut lines = g.u.to_lines();
    // seeds: the version sets of the problem (so that the problem is solvable through the snapshot) plus extras
    let mut seed_vs: Vec<u32> = Vec::new();
    for r in &g.p.reqs { match r { Req::Single(v) => seed_vs.push(*v), Req::Union(u) => seed_vs.extend(g.u.unions[u].iter().copied()) } }
    seed_vs.extend(g.p.cons.iter().copied());
    let all_vs: Vec<u32> = g.u.vsets.keys().copied().collect();
    if rng.chance(1, 2) { seed_vs.push(*all_vs.iter().max().unwrap()); }   // the highest-numbered version set
    seed_vs.sort(); seed_vs.dedup();
    let names: Vec<u32> = g.u.pkgs.keys().copied().filter(|_| rng.chance(1, 4)).collect();
    let solvs: Vec<u32> = g.u.solvs.keys().copied().filter(|_| rng.chance(1, 6)).collect();
    lines.push(format!("seeds names{} vs{} solvs{}", names.iter().map(|x| format!(" {x}")).collect::<String>(),
        seed_vs.iter().map(|x| format!(" {x}")).collect::<String>(), solvs.iter().map(|x| format!(" {x}")).collect::<String>()));
    // the problem uses only single requirements on captured version sets (unions of a problem are not part of a snapshot)
    let mut p = Problem::default();
    for r in &g.p.reqs { match r { Req::Single(v) => p.reqs.push(Req::Single(*v)), Req::Union(u) => p.reqs.push(Req::Single(g.u.unions[u][0])) } }
    if rng.chance(1, 2) { p.reqs.push(Req::Single(*seed_vs.iter().max().unwrap())); }
    p.cons = g.p.cons.clone();
    lines.push(p.to_line());
    // additional requirements added to the snapshot provider: (name, matcher)
    let n_add = rng.below(3);
    let pkg_names: Vec<u32> = g.u.pkgs.keys().copied().collect();
    for _ in 0..(if pkg_names.is_empty() { 0 } else { n_add }) { lines.push(format!("add {} {}", rng.pick(&pkg_names), if rng.chance(1, 2) { "*".to_string() } else { rng.below(10).to_string() })); }
    lines
}

fn solve_line<D: resolvo::DependencyProvider>(provider: D, reqs: Vec<Requirement>, cons: Vec<VersionSetId>) -> String {
    let r = catch_unwind(AssertUnwindSafe(|| {
        let mut solver = Solver::new(provider);
        match solver.solve(RProblem::new().requirements(reqs).constraints(cons)) {
            Ok(sol) => { let mut v: Vec<u32> = sol.iter().map(|s| s.0).collect(); v.sort(); format!("ok{}", v.iter().map(|x| format!(" {x}")).collect::<String>()) }
            Err(UnsolvableOrCancelled::Unsolvable(_)) => "unsat".to_string(),
            Err(UnsolvableOrCancelled::Cancelled(_)) => "cancelled".to_string(),
        }
    }));
    r.unwrap_or_else(|e| format!("panic {}", e.downcast_ref::<String>().cloned().or(e.downcast_ref::<&str>().map(|s| s.to_string())).unwrap_or_default().replace('\n', " ").chars().take(100).collect::<String>()))
}

fn dump(snap: &DependencySnapshot, out: &mut Vec<String>, tag: &str) {
    let mut s = format!("{tag}-solvables");
    for (id, sv) in snap.solvables.iter() { s.push_str(&format!(" {}:{}:{}:{}", id.0, sv.name.0, sv.order, sv.hint_dependencies_available as u8)); }
    out.push(s);
    for (id, sv) in snap.solvables.iter() {
        out.push(match &sv.dependencies {
            Dependencies::Known(k) => format!("{tag}-deps {} known reqs{} cons{}", id.0,
                k.requirements.iter().map(|r| match r { Requirement::Single(v) => format!(" v{}", v.0), Requirement::Union(u) => format!(" u{}", u.0) }).collect::<String>(),
                k.constrains.iter().map(|v| format!(" {}", v.0)).collect::<String>()),
            Dependencies::Unknown(r) => format!("{tag}-deps {} unknown {}", id.0, r.0),
        });
    }
    for (id, vs) in snap.version_sets.iter() { let mut m: Vec<u32> = vs.matching_candidates.iter().map(|s| s.0).collect(); m.sort(); out.push(format!("{tag}-vs {} name {} match{}", id.0, vs.name.0, m.iter().map(|x| format!(" {x}")).collect::<String>())); }
    for (id, u) in snap.version_set_unions.iter() { let m: Vec<u32> = u.iter().map(|s| s.0).collect(); out.push(format!("{tag}-union {} vs{}", id.0, m.iter().map(|x| format!(" {x}")).collect::<String>())); }
    for (id, p) in snap.packages.iter() { out.push(format!("{tag}-pkg {} cands{} excl{}", id.0, p.solvables.iter().map(|x| format!(" {}", x.0)).collect::<String>(), p.excluded.iter().map(|(s, r)| format!(" {}:{}", s.0, r.0)).collect::<String>())); }
    let mut st = format!("{tag}-strings"); for (id, _) in snap.strings.iter() { st.push_str(&format!(" {}", id.0)); } out.push(st);
}

pub fn run_case(lines: &[String]) -> Vec<String> {
    let u = Universe::from_lines(lines);
    let p = lines.iter().find(|l| l.starts_with("problem ")).map(|l| Problem::from_line(l)).unwrap_or_default();
    let seeds = lines.iter().find(|l| l.starts_with("seeds ")).cloned().unwrap_or_default();
    let t: Vec<&str> = seeds.split(' ').filter(|s| !s.is_empty()).collect();
    let (mut names, mut vss, mut solvs, mut mode) = (Vec::new(), Vec::new(), Vec::new(), "");
    for w in &t[1..] { match *w { "names" | "vs" | "solvs" => mode = w, x => { let n: u32 = x.parse().unwrap(); match mode { "names" => names.push(NameId(n)), "vs" => vss.push(VersionSetId(n)), _ => solvs.push(SolvableId(n)) } } } }
    let mut out = Vec::new();
    let reqs: Vec<Requirement> = p.reqs.iter().map(to_requirement).collect();
    let cons: Vec<VersionSetId> = p.cons.iter().map(|&v| VersionSetId(v)).collect();
    out.push(format!("live {}", solve_line(TableProvider::new(u.clone()), reqs.clone(), cons.clone())));
    let snap = match catch_unwind(AssertUnwindSafe(|| DependencySnapshot::from_provider(TableProvider::new(u.clone()), names, vss, solvs))) {
        Ok(Ok(s)) => s,
        Ok(Err(_)) => { out.push("capture cancelled".into()); return out; }
        Err(_) => { out.push("capture panic".into()); return out; }
    };
    dump(&snap, &mut out, "snap");
    // solve through the snapshot, with the additional requirements
    let adds: Vec<(u32, String)> = lines.iter().filter(|l| l.starts_with("add ")).map(|l| { let t: Vec<&str> = l.split(' ').collect(); (t[1].parse().unwrap(), t[2].to_string()) }).collect();
    let run_snap = |snap: &DependencySnapshot, tag: &str, out: &mut Vec<String>| {
        let r = catch_unwind(AssertUnwindSafe(|| {
            let mut provider = snap.provider();
            let mut reqs2 = reqs.clone();
            let mut ids = Vec::new();
            for (n, m) in &adds {
                if snap.packages.get(NameId(*n)).is_none() { ids.push("-".to_string()); continue; }
                let id = provider.add_package_requirement(NameId(*n), m);
                ids.push(id.0.to_string());
                reqs2.push(id.into());
            }
            (format!("{tag}-added {}", ids.join(" ")), solve_line(provider, reqs2, cons.clone()))
        }));
        match r { Ok((a, s)) => { out.push(a); out.push(format!("{tag} {s}")); } Err(_) => out.push(format!("{tag} panic")) }
    };
    run_snap(&snap, "viasnap", &mut out);
    // serde round-trip
    match catch_unwind(AssertUnwindSafe(|| { let v = serde_json::to_value(&snap).unwrap(); serde_json::from_value::<DependencySnapshot>(v).unwrap() })) {
        Ok(snap2) => { dump(&snap2, &mut out, "serde"); run_snap(&snap2, "viaserde", &mut out); }
        Err(_) => out.push("serde panic".into()),
    }
    out
}
