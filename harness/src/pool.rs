//! C18: interleavings of intern_*/resolve_*/lookup on the real `resolvo::utils::Pool`, with
//! references taken early re-checked (address and contents) after later insertions.
use crate::rng::Rng;
use resolvo::utils::{Pool, VersionSet};
use resolvo::{NameId, SolvableId, StringId, VersionSetId, VersionSetUnionId};
use std::panic::{catch_unwind, AssertUnwindSafe};

/// A version set whose `Hash` is legal but much coarser than its `Eq` (four buckets): tables keyed by version sets
/// must resolve collisions by equality.
#[derive(Clone, PartialEq, Eq)]
pub struct Vs(pub u32);
impl std::hash::Hash for Vs { fn hash<H: std::hash::Hasher>(&self, state: &mut H) { state.write_u32(self.0 % 4); } }
impl VersionSet for Vs { type V = u32; }

pub fn gen_case(rng: &mut Rng) -> Vec<String> {
    // 1/4 "deep" cases: thousands of operations biased to one arena with a large vocabulary, so that an arena grows
    // well past its first chunk (128 slots) while references into the later chunks are held
    let deep = rng.chance(1, 4);
    let focus = rng.below(3);
    let n_ops = if deep { rng.range(600, 2500) } else { match rng.below(4) { 0 => rng.range(5, 40), 1 => rng.range(100, 300), 2 => rng.range(300, 700), _ => rng.range(20, 150) } };
    let vocab = if deep { rng.range(1000, 6000) } else { rng.range(3, 400) };
    let mut lines = Vec::new();
    let (mut n_str, mut n_name, mut n_solv, mut n_vs, mut n_union) = (0u64, 0u64, 0u64, 0u64, 0u64);
    for _ in 0..n_ops {
        let roll = if deep && rng.chance(2, 3) { match focus { 0 => 0, 1 => 3, _ => 7 } } else { rng.below(16) };
        let l = match roll {
            0 | 1 | 2 => { n_str += 1; format!("str w{}", rng.below(vocab)) }
            3 | 4 | 5 => { n_name += 1; format!("name w{}", rng.below(vocab)) }
            6 => format!("lookup w{}", rng.below(vocab)),
            7 | 8 => { n_solv += 1; format!("solv {} {}", rng.below(n_name.max(1)), rng.below(50)) }
            9 | 10 => { n_vs += 1; format!("vs {} {}", rng.below(n_name.max(1).min(6)), rng.below(8)) }
            11 if n_vs > 0 && rng.chance(1, 4) => {
                // the iterator handed to `intern_version_set_union` itself interns another union while it is consumed (a provider
                // that builds nested requirements)
                n_union += 2;
                let ids = |rng: &mut Rng, k: u64| (0..k).map(|_| format!(" {}", rng.below(n_vs.min(40)))).collect::<String>();
                let (ko, ki) = (rng.range(1, 5), rng.range(1, 4));
                format!("unionnest{} /{}", ids(rng, ko), ids(rng, ki))
            }
            11 => { if n_vs == 0 { "check-stable".into() } else { n_union += 1; let k = rng.range(1, 5); format!("union{}", (0..k).map(|_| format!(" {}", rng.below(n_vs.min(40)))).collect::<String>()) } }
            12 => format!("rstr {}", rng.below(n_str.max(1) + 1)),
            13 => format!("rname {}", rng.below(n_name.max(1) + 1)),
            14 => match rng.below(3) { 0 => format!("rsolv {}", rng.below(n_solv.max(1) + 1)), 1 => format!("rvs {}", rng.below(n_vs.max(1) + 1)), _ => format!("runion {}", rng.below(n_union.max(1) + 1)) },
            _ => "check-stable".into(),
        };
        lines.push(l);
    }
    lines.push("check-stable".into());
    lines
}

pub fn run_case(lines: &[String]) -> Vec<String> {
    let pool: Pool<Vs, String> = Pool::new();
    let mut out = Vec::new();
    // references held across later insertions: (address, expected contents)
    let mut held_str: Vec<(u32, usize, String)> = Vec::new();
    let mut held_name: Vec<(u32, usize, String)> = Vec::new();
    let mut held_solv: Vec<(u32, usize, (u32, u32))> = Vec::new();
    // every string is handed to the pool through one reused buffer: consecutive calls see the same address (and, for words
    // with the same number of digits, the same length) with different contents - as a provider that formats its texts into
    // a scratch buffer does
    let mut scratch = String::with_capacity(256);
    for l in lines {
        let t: Vec<&str> = l.split(' ').filter(|s| !s.is_empty()).collect();
        let r = catch_unwind(AssertUnwindSafe(|| -> String {
            match t[0] {
                "str" => { scratch.clear(); scratch.push_str(t[1]); let id = pool.intern_string(scratch.as_str()); let s = pool.resolve_string(id); held_str.push((id.0, s.as_ptr() as usize, s.to_string())); format!("id {}", id.0) }
                "name" => { let id = pool.intern_package_name(t[1].to_string()); let s = pool.resolve_package_name(id); held_name.push((id.0, s as *const String as usize, s.clone())); format!("id {}", id.0) }
                "lookup" => match pool.lookup_package_name(&t[1].to_string()) { Some(id) => format!("id {}", id.0), None => "id -".into() },
                "solv" => { let id = pool.intern_solvable(NameId(t[1].parse().unwrap()), t[2].parse().unwrap()); let s = pool.resolve_solvable(id); held_solv.push((id.0, s as *const _ as usize, (s.name.0, s.record))); format!("id {}", id.0) }
                "vs" => format!("id {}", pool.intern_version_set(NameId(t[1].parse().unwrap()), Vs(t[2].parse().unwrap())).0),
                "union" => { let ids: Vec<VersionSetId> = t[1..].iter().map(|x| VersionSetId(x.parse().unwrap())).collect(); format!("id {}", pool.intern_version_set_union(ids[0], ids[1..].iter().copied()).0) }
                "unionnest" => {
                    let cut = t.iter().position(|x| *x == "/").unwrap();
                    let outer: Vec<VersionSetId> = t[1..cut].iter().map(|x| VersionSetId(x.parse().unwrap())).collect();
                    let inner: Vec<VersionSetId> = t[cut + 1..].iter().map(|x| VersionSetId(x.parse().unwrap())).collect();
                    let mut inner_id = None;
                    let mut rest = outer[1..].iter().copied();
                    let pool_ref = &pool;
                    let others = std::iter::from_fn(|| {
                        if inner_id.is_none() { inner_id = Some(pool_ref.intern_version_set_union(inner[0], inner[1..].iter().copied())); }
                        rest.next()
                    });
                    let id = pool.intern_version_set_union(outer[0], others);
                    format!("id {} {}", id.0, inner_id.map(|x| x.0 as i64).unwrap_or(-1))
                }
                "rstr" => format!("val {}", pool.resolve_string(StringId(t[1].parse().unwrap()))),
                "rname" => format!("val {}", pool.resolve_package_name(NameId(t[1].parse().unwrap()))),
                "rsolv" => { let s = pool.resolve_solvable(SolvableId(t[1].parse().unwrap())); format!("val {} {}", s.name.0, s.record) }
                "rvs" => { let id = VersionSetId(t[1].parse().unwrap()); format!("val {} {}", pool.resolve_version_set_package_name(id).0, pool.resolve_version_set(id).0) }
                "runion" => format!("val{}", pool.resolve_version_set_union(VersionSetUnionId(t[1].parse().unwrap())).map(|v| format!(" {}", v.0)).collect::<String>()),
                "check-stable" => {
                    let mut ok = true;
                    for (id, addr, s) in &held_str { let r = pool.resolve_string(StringId(*id)); ok &= r.as_ptr() as usize == *addr && r == s; }
                    for (id, addr, s) in &held_name { let r = pool.resolve_package_name(NameId(*id)); ok &= r as *const String as usize == *addr && r == s; }
                    for (id, addr, (n, rec)) in &held_solv { let r = pool.resolve_solvable(SolvableId(*id)); ok &= r as *const _ as usize == *addr && r.name.0 == *n && r.record == *rec; }
                    format!("stable {}", ok as u8)
                }
                _ => "bad-op".into(),
            }
        }));
        out.push(r.unwrap_or_else(|_| "panic".into()));
    }
    out
}
