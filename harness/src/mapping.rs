//! C19: operation sequences on the real `resolvo::Mapping`.
use crate::rng::Rng;
use resolvo::{Mapping, NameId};
use std::fmt::Write;

pub fn gen_case(rng: &mut Rng) -> Vec<String> {
    // id distribution: dense / sparse / around chunk boundaries / huge gaps
    let style = rng.below(5);
    let n_ops = rng.range(1, 60);
    let cap = match rng.below(4) { 0 => 0, 1 => 1, 2 => rng.range(2, 300), _ => 129 };
    let mut lines = vec![format!("new {cap}")];
    let mut used: Vec<u64> = Vec::new();
    let id = |rng: &mut Rng, used: &Vec<u64>| -> u64 {
        if !used.is_empty() && rng.chance(1, 3) { return *rng.pick(used); }
        match style {
            0 => rng.below(12),
            1 => rng.below(700),
            2 => *rng.pick(&[0u64, 1, 126, 127, 128, 129, 255, 256, 257, 383, 384, 511, 512]),
            3 => rng.below(8) * 128 + rng.below(3),
            _ => if rng.chance(1, 2) { rng.below(20) } else { rng.below(3000) },
        }
    };
    for _ in 0..n_ops {
        match rng.below(14) {
            12 => { let k = id(rng, &used); lines.push(format!("getmut {k} {}", rng.below(1000))); }
            13 => lines.push("slots".into()),
            0..=4 => { let k = id(rng, &used); used.push(k); lines.push(format!("insert {k} {}", rng.below(1000))); }
            5..=6 => { let k = id(rng, &used); lines.push(format!("unset {k}")); }
            7 => { let k = id(rng, &used); lines.push(format!("get {k}")); }
            8 => lines.push("len".into()),
            9..=10 => lines.push("iter".into()),
            _ => lines.push("serde".into()),
        }
    }
    lines.push("len".into());
    lines.push("iter".into());
    lines.push("serde".into());
    lines.push("iter".into());
    lines
}

fn opt(v: Option<u64>) -> String { v.map(|x| x.to_string()).unwrap_or_else(|| "-".into()) }

pub fn run_case(lines: &[String]) -> Vec<String> {
    let mut out = Vec::new();
    let mut m: Mapping<NameId, u64> = Mapping::default();
    for l in lines {
        let t: Vec<&str> = l.split(' ').collect();
        match t[0] {
            "new" => { m = Mapping::with_capacity(t[1].parse().unwrap()); out.push("ok".into()); }
            "insert" => { let p = m.insert(NameId(t[1].parse().unwrap()), t[2].parse().unwrap()); out.push(format!("prev {}", opt(p))); }
            "unset" => { let p = m.unset(NameId(t[1].parse().unwrap())); out.push(format!("prev {}", opt(p))); }
            "getmut" => {
                let p = match m.get_mut(NameId(t[1].parse().unwrap())) { Some(x) => { let old = *x; *x = t[2].parse().unwrap(); Some(old) } None => None };
                out.push(format!("mut {}", opt(p)));
            }
            "slots" => { assert_eq!(m.slots(), m.capacity()); out.push(format!("slots {}", m.slots())); }
            "get" => { let p = m.get(NameId(t[1].parse().unwrap())).copied(); out.push(format!("val {}", opt(p))); }
            "len" => out.push(format!("len {} empty {}", m.len(), m.is_empty() as u8)),
            "iter" => { let mut s = String::from("iter"); for (k, v) in m.iter() { write!(s, " {}:{}", k.0, v).unwrap(); } out.push(s); }
            "serde" => {
                let json = serde_json::to_value(&m).unwrap();
                let arr = json.as_array().expect("array");
                let mut s = format!("ser {}", arr.len());
                for (i, x) in arr.iter().enumerate() { if let Some(v) = x.as_u64() { write!(s, " {i}:{v}").unwrap() } }
                m = serde_json::from_value(json).unwrap();
                out.push(s);
            }
            _ => panic!("bad op {l}"),
        }
    }
    out
}
