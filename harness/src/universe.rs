//! A provider universe as finite tables + its line format (same bytes go to the Lean driver).
use std::collections::BTreeMap;
use std::fmt::Write;

#[derive(Clone, Copy, Debug, PartialEq, Eq, PartialOrd, Ord)]
pub enum Req { Single(u32), Union(u32) }

#[derive(Clone, Debug)]
pub enum Deps { Known { reqs: Vec<Req>, cons: Vec<u32> }, Unknown(u32) }

#[derive(Clone, Debug, Default)]
pub enum Hint { #[default] None, All, Some(Vec<u32>) }

#[derive(Clone, Debug, Default)]
pub struct Pkg {
    pub cands: Vec<u32>,
    pub favored: Option<u32>,
    pub locked: Option<u32>,
    pub excluded: Vec<(u32, u32)>,
    pub hint: Hint,
}

#[derive(Clone, Debug)]
pub struct Solv { pub name: u32, pub rank: u32, pub deps: Deps }

#[derive(Clone, Debug)]
pub struct VSet { pub name: u32, pub matching: Vec<u32> }

#[derive(Clone, Debug, Default)]
pub struct Universe {
    pub pkgs: BTreeMap<u32, Pkg>,
    pub solvs: BTreeMap<u32, Solv>,
    pub vsets: BTreeMap<u32, VSet>,
    pub unions: BTreeMap<u32, Vec<u32>>,
    /// `filter_candidates` returns what it keeps in reverse input order (the trait promises no order)
    pub filter_rev: bool,
}

#[derive(Clone, Debug, Default)]
pub struct Problem { pub reqs: Vec<Req>, pub cons: Vec<u32>, pub soft: Vec<u32> }

pub fn req_str(r: &Req) -> String { match r { Req::Single(v) => format!("v{v}"), Req::Union(u) => format!("u{u}") } }
pub fn parse_req(s: &str) -> Req {
    let n: u32 = s[1..].parse().unwrap();
    if s.starts_with('v') { Req::Single(n) } else { Req::Union(n) }
}
fn list(xs: &[u32]) -> String { xs.iter().map(|x| format!(" {x}")).collect() }
fn opt(x: Option<u32>) -> String { x.map(|v| v.to_string()).unwrap_or_else(|| "-".into()) }

impl Universe {
    pub fn to_lines(&self) -> Vec<String> {
        let mut out = Vec::new();
        for (n, p) in &self.pkgs {
            let mut s = format!("pkg {n} cands{} fav {} lock {} excl", list(&p.cands), opt(p.favored), opt(p.locked));
            for (e, r) in &p.excluded { write!(s, " {e}:{r}").unwrap(); }
            match &p.hint {
                Hint::None => s.push_str(" hint none"),
                Hint::All => s.push_str(" hint all"),
                Hint::Some(l) => write!(s, " hint some{}", list(l)).unwrap(),
            }
            out.push(s);
        }
        for (id, sv) in &self.solvs {
            match &sv.deps {
                Deps::Known { reqs, cons } => out.push(format!(
                    "solv {id} name {} rank {} known reqs{} cons{}", sv.name, sv.rank,
                    reqs.iter().map(|r| format!(" {}", req_str(r))).collect::<String>(), list(cons))),
                Deps::Unknown(r) => out.push(format!("solv {id} name {} rank {} unknown {r}", sv.name, sv.rank)),
            }
        }
        for (id, v) in &self.vsets { out.push(format!("vs {id} name {} match{}", v.name, list(&v.matching))); }
        for (id, u) in &self.unions { out.push(format!("union {id} vs{}", list(u))); }
        if self.filter_rev { out.push("filterrev 1".into()); }
        out
    }

    /// Parses `pkg`/`solv`/`vs`/`union` lines (ignores others).
    pub fn from_lines(lines: &[String]) -> Universe {
        let mut u = Universe::default();
        for l in lines {
            let t: Vec<&str> = l.split(' ').filter(|s| !s.is_empty()).collect();
            if t.is_empty() { continue; }
            let nums = |from: usize, until: &[&str]| -> (Vec<u32>, usize) {
                let mut v = Vec::new();
                let mut i = from;
                while i < t.len() && !until.contains(&t[i]) { v.push(t[i].parse().unwrap()); i += 1; }
                (v, i)
            };
            match t[0] {
                "pkg" => {
                    let n: u32 = t[1].parse().unwrap();
                    let (cands, i) = nums(3, &["fav"]);
                    let favored = t[i + 1].parse().ok();
                    let locked = t[i + 3].parse().ok();
                    let mut j = i + 5;
                    let mut excluded = Vec::new();
                    while t[j] != "hint" {
                        let (a, b) = t[j].split_once(':').unwrap();
                        excluded.push((a.parse().unwrap(), b.parse().unwrap()));
                        j += 1;
                    }
                    let hint = match t[j + 1] { "none" => Hint::None, "all" => Hint::All, _ => Hint::Some(nums(j + 2, &[]).0) };
                    u.pkgs.insert(n, Pkg { cands, favored, locked, excluded, hint });
                }
                "solv" => {
                    let id: u32 = t[1].parse().unwrap();
                    let name = t[3].parse().unwrap();
                    let rank = t[5].parse().unwrap();
                    let deps = if t[6] == "unknown" { Deps::Unknown(t[7].parse().unwrap()) } else {
                        let mut i = 8;
                        let mut reqs = Vec::new();
                        while t[i] != "cons" { reqs.push(parse_req(t[i])); i += 1; }
                        Deps::Known { reqs, cons: nums(i + 1, &[]).0 }
                    };
                    u.solvs.insert(id, Solv { name, rank, deps });
                }
                "vs" => { u.vsets.insert(t[1].parse().unwrap(), VSet { name: t[3].parse().unwrap(), matching: nums(5, &[]).0 }); }
                "union" => { u.unions.insert(t[1].parse().unwrap(), nums(3, &[]).0); }
                "filterrev" => { u.filter_rev = t.get(1) == Some(&"1"); }
                _ => {}
            }
        }
        u
    }
}

impl Problem {
    pub fn to_line(&self) -> String {
        format!("problem reqs{} cons{} soft{}",
            self.reqs.iter().map(|r| format!(" {}", req_str(r))).collect::<String>(), list(&self.cons), list(&self.soft))
    }
    pub fn from_line(l: &str) -> Problem {
        let t: Vec<&str> = l.split(' ').filter(|s| !s.is_empty()).collect();
        let mut p = Problem::default();
        let mut mode = "";
        for w in &t[1..] {
            match *w { "reqs" | "cons" | "soft" => mode = w, x => match mode {
                "reqs" => p.reqs.push(parse_req(x)),
                "cons" => p.cons.push(x.parse().unwrap()),
                "soft" => p.soft.push(x.parse().unwrap()),
                _ => {} } }
        }
        p
    }
}
