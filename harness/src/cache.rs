//! C20: operation sequences on the real public `SolverCache` with a logging table provider.
use crate::gen::{self, Kind};
use crate::provider::*;
use crate::rng::Rng;
use crate::universe::*;
use futures::FutureExt;
use resolvo::{Dependencies, NameId, Requirement, SolvableId, SolverCache, VersionSetId};

pub fn gen_case(rng: &mut Rng) -> Vec<String> {
    let kind = *rng.pick(&[Kind::General, Kind::Hints, Kind::ConflictFree]);
    let g = gen::generate(rng, kind);
    let mut lines = g.u.to_lines();
    let names: Vec<u32> = g.u.solvs.values().map(|s| s.name).collect();
    let solvs: Vec<u32> = g.u.solvs.keys().copied().collect();
    let vss: Vec<u32> = g.u.vsets.keys().copied().collect();
    let unions: Vec<u32> = g.u.unions.keys().copied().collect();
    // 1/4 of the cases: `get_dependencies` is asynchronous - a request is started (the future polled once), later answered
    // or abandoned (the future dropped), and the other queries are asked in between
    let async_deps = rng.chance(1, 4);
    lines.push(format!("peek {}", (!async_deps && rng.chance(1, 3)) as u8));
    if async_deps { lines.push("asyncdeps 1".into()); }
    // 1/5 of the others: `get_candidates` is asynchronous and several `get_or_cache_candidates` futures for the same few
    // packages are alive at once - started (polled once), polled again, dropped, while the provider answers at some point
    if !async_deps && rng.chance(1, 5) {
        lines.push("asynccands 1".into());
        let mut few: Vec<u32> = Vec::new();
        for _ in 0..rng.range(1, 3) { let n = *rng.pick(&names); if !few.contains(&n) { few.push(n); } }
        let mut live: Vec<u32> = Vec::new();
        let mut next = 0u32;
        for _ in 0..rng.range(8, 40) {
            let l = match rng.below(12) {
                0 | 1 | 2 | 3 => { live.push(next); next += 1; format!("op cstart {} {}", rng.pick(&few), next - 1) }
                4 | 5 => if live.is_empty() { "op cdrop 0".to_string() } else { let k = rng.below(live.len() as u64) as usize; format!("op cdrop {}", live.remove(k)) },
                6 => format!("op copen {}", rng.pick(&few)),
                7 | 8 | 9 => if live.is_empty() { "op cpoll 0".to_string() } else { format!("op cpoll {}", rng.pick(&live)) },
                _ => format!("op avail {}", rng.pick(&solvs)),
            };
            lines.push(l);
        }
        return lines;
    }
    let mut pending: Vec<u32> = Vec::new();
    for _ in 0..rng.range(5, 40) {
        if async_deps {
            let l = match rng.below(12) {
                0 | 1 | 2 => { let s = *rng.pick(&solvs); if !pending.contains(&s) { pending.push(s); } format!("op dstart {s}") }
                3 | 4 => if pending.is_empty() { format!("op dfinish {}", rng.pick(&solvs)) } else { let k = rng.below(pending.len() as u64) as usize; format!("op dfinish {}", pending.remove(k)) },
                5 => if pending.is_empty() { format!("op ddrop {}", rng.pick(&solvs)) } else { let k = rng.below(pending.len() as u64) as usize; format!("op ddrop {}", pending.remove(k)) },
                6 | 7 | 8 => format!("op avail {}", if !pending.is_empty() && rng.chance(1, 2) { *rng.pick(&pending) } else { *rng.pick(&solvs) }),
                9 => format!("op cand {}", rng.pick(&names)),
                10 => format!("op match {}", rng.pick(&vss)),
                _ => format!("op sorted v{}", rng.pick(&vss)),
            };
            lines.push(l);
            continue;
        }
        let l = match rng.below(11) {
            0 | 1 => format!("op cand {}", rng.pick(&names)),
            2 | 3 => format!("op match {}", rng.pick(&vss)),
            4 => format!("op nonmatch {}", rng.pick(&vss)),
            5 | 6 => format!("op sorted v{}", rng.pick(&vss)),
            7 => if unions.is_empty() { format!("op sorted v{}", rng.pick(&vss)) } else { format!("op sorted u{}", rng.pick(&unions)) },
            8 => format!("op deps {}", rng.pick(&solvs)),
            _ => format!("op avail {}", rng.pick(&solvs)),
        };
        lines.push(l);
    }
    lines
}

fn list(xs: &[SolvableId]) -> String { format!("list{}", xs.iter().map(|s| format!(" {}", s.0)).collect::<String>()) }

pub fn run_case(lines: &[String]) -> Vec<String> {
    let u = Universe::from_lines(lines);
    let mut provider = TableProvider::new(u);
    provider.sort_peeks_deps = lines.iter().any(|l| l == "peek 1");
    if lines.iter().any(|l| l == "asyncdeps 1") {
        provider.gates = Some(std::rc::Rc::new(Gates::default()));
        provider.gate_deps_only = true;
    }
    if lines.iter().any(|l| l == "asynccands 1") {
        provider.gates = Some(std::rc::Rc::new(Gates::default()));
    }
    let cache = SolverCache::new(provider);
    let mut out = Vec::new();
    // the candidate requests that have been started and are neither finished nor abandoned, by handle
    type CandsFuture<'a> = std::pin::Pin<Box<dyn std::future::Future<Output = Result<&'a resolvo::Candidates, Box<dyn std::any::Any>>> + 'a>>;
    let mut cand_slots: Vec<(u32, CandsFuture)> = Vec::new();
    // the dependency requests that have been started and neither answered nor abandoned
    type DepsFuture<'a> = std::pin::Pin<Box<dyn std::future::Future<Output = Result<&'a Dependencies, Box<dyn std::any::Any>>> + 'a>>;
    let mut in_flight: Vec<(u32, DepsFuture)> = Vec::new();
    let waker = futures::task::noop_waker();
    for l in lines.iter().filter(|l| l.starts_with("op ")) {
        let t: Vec<&str> = l.split(' ').collect();
        let r = match t[1] {
            "cand" => list(&cache.get_or_cache_candidates(NameId(t[2].parse().unwrap())).now_or_never().unwrap().unwrap().candidates),
            "match" => list(cache.get_or_cache_matching_candidates(VersionSetId(t[2].parse().unwrap())).now_or_never().unwrap().unwrap()),
            "nonmatch" => list(cache.get_or_cache_non_matching_candidates(VersionSetId(t[2].parse().unwrap())).now_or_never().unwrap().unwrap()),
            "sorted" => { let r: Requirement = to_requirement(&parse_req(t[2])); list(cache.get_or_cache_sorted_candidates(r).now_or_never().unwrap().unwrap()) }
            "deps" => match cache.get_or_cache_dependencies(SolvableId(t[2].parse().unwrap())).now_or_never().unwrap().unwrap() {
                Dependencies::Known(k) => format!("deps known reqs{} cons{}",
                    k.requirements.iter().map(|r| match r { Requirement::Single(v) => format!(" v{}", v.0), Requirement::Union(u) => format!(" u{}", u.0) }).collect::<String>(),
                    k.constrains.iter().map(|v| format!(" {}", v.0)).collect::<String>()),
                Dependencies::Unknown(r) => format!("deps unknown {}", r.0),
            },
            "avail" => format!("bool {}", cache.are_dependencies_available_for(SolvableId(t[2].parse().unwrap())) as u8),
            "cstart" => {
                let (n, k): (u32, u32) = (t[2].parse().unwrap(), t[3].parse().unwrap());
                if cand_slots.iter().any(|(x, _)| *x == k) { "busy".into() } else {
                    let mut f: CandsFuture = Box::pin(cache.get_or_cache_candidates(NameId(n)));
                    let mut cx = std::task::Context::from_waker(&waker);
                    match f.as_mut().poll(&mut cx) { std::task::Poll::Ready(_) => "ready".into(), std::task::Poll::Pending => { cand_slots.push((k, f)); "pending".into() } }
                }
            }
            "cdrop" => {
                let k: u32 = t[2].parse().unwrap();
                match cand_slots.iter().position(|(x, _)| *x == k) { Some(i) => { drop(cand_slots.remove(i)); "dropped".into() } None => "none".into() }
            }
            "copen" => {
                let n: u32 = t[2].parse().unwrap();
                if let Some(g) = &cache.provider().gates {
                    for gate in g.gates.borrow_mut().iter_mut().filter(|x| !x.done && x.label == format!("c{n}")) { gate.done = true; }
                }
                "ok".into()
            }
            "cpoll" => {
                let k: u32 = t[2].parse().unwrap();
                match cand_slots.iter().position(|(x, _)| *x == k) {
                    Some(i) => {
                        let mut cx = std::task::Context::from_waker(&waker);
                        match cand_slots[i].1.as_mut().poll(&mut cx) {
                            std::task::Poll::Ready(_) => { drop(cand_slots.remove(i)); "ready".into() }
                            std::task::Poll::Pending => "pending".into(),
                        }
                    }
                    None => "none".into(),
                }
            }
            "dstart" => {
                let sv: u32 = t[2].parse().unwrap();
                if in_flight.iter().any(|(x, _)| *x == sv) { "busy".into() } else {
                    let mut f: DepsFuture = Box::pin(cache.get_or_cache_dependencies(SolvableId(sv)));
                    let mut cx = std::task::Context::from_waker(&waker);
                    match f.as_mut().poll(&mut cx) { std::task::Poll::Ready(_) => "ready".into(), std::task::Poll::Pending => { in_flight.push((sv, f)); "pending".into() } }
                }
            }
            "ddrop" => {
                let sv: u32 = t[2].parse().unwrap();
                match in_flight.iter().position(|(x, _)| *x == sv) { Some(k) => { drop(in_flight.remove(k)); "dropped".into() } None => "none".into() }
            }
            "dfinish" => {
                let sv: u32 = t[2].parse().unwrap();
                match in_flight.iter().position(|(x, _)| *x == sv) {
                    Some(k) => {
                        let (_, mut f) = in_flight.remove(k);
                        // the provider answers: open the gate the request is parked on
                        if let Some(g) = &cache.provider().gates {
                            let mut gs = g.gates.borrow_mut();
                            // (gates of requests that were abandoned earlier are still listed: open them all)
                            for gate in gs.iter_mut().filter(|x| !x.done && x.label == format!("d{sv}")) { gate.done = true; }
                        }
                        let mut cx = std::task::Context::from_waker(&waker);
                        match f.as_mut().poll(&mut cx) { std::task::Poll::Ready(_) => "finished".into(), std::task::Poll::Pending => "still-pending".into() }
                    }
                    None => "none".into(),
                }
            }
            _ => "bad-op".into(),
        };
        out.push(r);
    }
    out.push(format!("log{}", cache.provider().log.borrow().iter().filter(|c| c.starts_with('c') || c.starts_with('d')).map(|c| format!(" {c}")).collect::<String>()));
    out
}
