//! C20: operation sequences on the real public `SolverCache` with a logging table provider.
use crate::gen::{self, Kind};
use crate::provider::*;
use crate::rng::Rng;
use crate::universe::*;
use futures::FutureExt;
use resolvo::{Dependencies, NameId, Requirement, SolvableId, SolverCache, VersionSetId};

pub fn gen_case(rng: &mut Rng) -> Vec<String> {
    let kind = *rng.pick(&[Kind::General, Kind::Hints, Kind::ConflictFree]);
    let g = gen::generate(rng, kind);
    let mut lines = g.u.to_lines();
    let names: Vec<u32> = g.u.solvs.values().map(|s| s.name).collect();
    let solvs: Vec<u32> = g.u.solvs.keys().copied().collect();
    let vss: Vec<u32> = g.u.vsets.keys().copied().collect();
    let unions: Vec<u32> = g.u.unions.keys().copied().collect();
    lines.push(format!("peek {}", rng.chance(1, 3) as u8));
    for _ in 0..rng.range(5, 40) {
        let l = match rng.below(11) {
            0 | 1 => format!("op cand {}", rng.pick(&names)),
            2 | 3 => format!("op match {}", rng.pick(&vss)),
            4 => format!("op nonmatch {}", rng.pick(&vss)),
            5 | 6 => format!("op sorted v{}", rng.pick(&vss)),
            7 => if unions.is_empty() { format!("op sorted v{}", rng.pick(&vss)) } else { format!("op sorted u{}", rng.pick(&unions)) },
            8 => format!("op deps {}", rng.pick(&solvs)),
            _ => format!("op avail {}", rng.pick(&solvs)),
        };
        lines.push(l);
    }
    lines
}

fn list(xs: &[SolvableId]) -> String { format!("list{}", xs.iter().map(|s| format!(" {}", s.0)).collect::<String>()) }

pub fn run_case(lines: &[String]) -> Vec<String> {
    let u = Universe::from_lines(lines);
    let mut provider = TableProvider::new(u);
    provider.sort_peeks_deps = lines.iter().any(|l| l == "peek 1");
    let cache = SolverCache::new(provider);
    let mut out = Vec::new();
    for l in lines.iter().filter(|l| l.starts_with("op ")) {
        let t: Vec<&str> = l.split(' ').collect();
        let r = match t[1] {
            "cand" => list(&cache.get_or_cache_candidates(NameId(t[2].parse().unwrap())).now_or_never().unwrap().unwrap().candidates),
            "match" => list(cache.get_or_cache_matching_candidates(VersionSetId(t[2].parse().unwrap())).now_or_never().unwrap().unwrap()),
            "nonmatch" => list(cache.get_or_cache_non_matching_candidates(VersionSetId(t[2].parse().unwrap())).now_or_never().unwrap().unwrap()),
            "sorted" => { let r: Requirement = to_requirement(&parse_req(t[2])); list(cache.get_or_cache_sorted_candidates(r).now_or_never().unwrap().unwrap()) }
            "deps" => match cache.get_or_cache_dependencies(SolvableId(t[2].parse().unwrap())).now_or_never().unwrap().unwrap() {
                Dependencies::Known(k) => format!("deps known reqs{} cons{}",
                    k.requirements.iter().map(|r| match r { Requirement::Single(v) => format!(" v{}", v.0), Requirement::Union(u) => format!(" u{}", u.0) }).collect::<String>(),
                    k.constrains.iter().map(|v| format!(" {}", v.0)).collect::<String>()),
                Dependencies::Unknown(r) => format!("deps unknown {}", r.0),
            },
            "avail" => format!("bool {}", cache.are_dependencies_available_for(SolvableId(t[2].parse().unwrap())) as u8),
            _ => "bad-op".into(),
        };
        out.push(r);
    }
    out.push(format!("log{}", cache.provider().log.borrow().iter().filter(|c| c.starts_with('c') || c.starts_with('d')).map(|c| format!(" {c}")).collect::<String>()));
    out
}
