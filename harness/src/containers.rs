//! C17 (containers): operation sequences for the shared Vector / String types. Generated here, executed
//! by the C++ harness (`harness/cpp`) under ASan/UBSan and by the Lean model.
use crate::rng::Rng;

pub fn gen_case(rng: &mut Rng) -> Vec<String> {
    let n = rng.range(5, 60);
    let mut sizes = [0usize; 8];     // tracked sizes so that indexed ops stay in range
    let mut lines = Vec::new();
    let allow_pushself = true;       // v.push_back(v[i]): legal for std::vector, was a use-after-free here (fixed, see known_findings.json)
    for _ in 0..n {
        let h = rng.below(8) as usize;
        let g = rng.below(8) as usize;
        let l = match rng.below(20) {
            0 | 1 => { let k = rng.below(6) as usize; sizes[h] = k; format!("{} v{h}{}", if rng.chance(1, 2) { "vinit" } else { "vrange" }, (0..k).map(|_| format!(" {}", rng.below(100))).collect::<String>()) }
            2 | 3 => { sizes[h] = sizes[g]; format!("vcopy v{h} v{g}") }
            4 | 5 => { sizes[h] = sizes[g]; format!("vassign v{h} v{g}") }
            6 => { sizes.swap(h, g); format!("vmove v{h} v{g}") }
            7 | 8 | 9 => { sizes[h] += 1; format!("vpush v{h} {}", rng.below(100)) }
            10 => { sizes[h] = 0; format!("vclear v{h}") }
            11 => if sizes[h] > 0 { format!("vset v{h} {} {}", rng.below(sizes[h] as u64), rng.below(100)) } else { format!("vsize v{h}") },
            12 => if sizes[h] > 0 { format!("vget v{h} {}", rng.below(sizes[h] as u64)) } else { format!("vsize v{h}") },
            13 => format!("veq v{h} v{g}"),
            14 => if rng.chance(1, 2) { format!("vslice v{h}") } else { format!("vspan v{h}") },
            15 => if allow_pushself && sizes[h] > 0 { sizes[h] += 1; format!("{} v{h} {}", if rng.chance(1, 2) { "vpushself" } else { "vpushmove" }, rng.below(sizes[h] as u64 - 1)) } else { format!("vsize v{h}") },
            16 => format!("sset s{h} {}", if rng.chance(1, 5) { "\"\"".to_string() } else { format!("w{}", rng.below(1000)) }),
            17 => format!("scopy s{h} s{g}"),
            18 => if rng.chance(1, 2) { format!("sassign s{h} s{g}") } else { format!("smove s{h} s{g}") },
            _ => match rng.below(5) {
                0 | 1 => format!("sview s{h}"),
                2 => format!("seq s{h} s{g}"),
                // s = string_view(s).substr(k): assignment from a view into the string itself
                3 => format!("ssub s{h} {}", rng.below(4)),
                // s = String(std::string_view{}): a view with a null data pointer
                _ => format!("snull s{h}"),
            },
        };
        lines.push(l);
    }
    lines
}
