//! C15 (clause level): the real `AtMostOnceTracker` through the verif hook.
use crate::rng::Rng;

pub fn gen_case(rng: &mut Rng, idx: usize) -> Vec<String> {
    // n crosses every power of two up to 70 as idx grows; repetitions sprinkled in
    let n = if idx < 72 { idx as u64 } else { rng.range(1, 140) };
    let first_helper = 1000 + rng.below(50);
    let mut vars: Vec<u64> = (0..n).map(|i| i * 3 + 7).collect();
    rng.shuffle(&mut vars);
    let mut seq = Vec::new();
    for &v in &vars { seq.push(v); if rng.chance(1, 5) && !seq.is_empty() { let r = *rng.pick(&seq); seq.push(r); } }
    vec![format!("amo {first_helper} {}", seq.iter().map(|v| v.to_string()).collect::<Vec<_>>().join(" "))]
}

pub fn run_case(lines: &[String]) -> Vec<String> {
    let t: Vec<&str> = lines[0].split(' ').filter(|s| !s.is_empty()).collect();
    let first: u32 = t[1].parse().unwrap();
    let vars: Vec<u32> = t[2..].iter().map(|s| s.parse().unwrap()).collect();
    let cl = resolvo::verif::at_most_once_clauses(&vars, first);
    vec![format!("clauses{}", cl.iter().map(|(a, b, p)| format!(" {a}:{b}:{}", *p as u8)).collect::<String>())]
}
