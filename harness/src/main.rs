mod amo;
mod cache;
mod containers;
mod gen;
mod mapping;
mod pool;
mod provider;
mod rng;
mod snapshot;
mod solve;
mod universe;

use rng::Rng;
use std::io::Write;

fn arg(args: &[String], name: &str) -> Option<String> {
    args.iter().position(|a| a == name).and_then(|i| args.get(i + 1).cloned())
}

/// Runs `f` catching panics; a panic becomes a single `panic <location>` output line.
pub fn guarded(f: impl FnOnce() -> Vec<String> + std::panic::UnwindSafe) -> Vec<String> {
    match std::panic::catch_unwind(f) {
        Ok(v) => v,
        Err(e) => {
            let msg = if let Some(s) = e.downcast_ref::<String>() { s.clone() }
                else if let Some(s) = e.downcast_ref::<&str>() { s.to_string() } else { "?".into() };
            let loc = LAST_PANIC_LOC.with(|l| l.borrow().clone());
            vec![format!("panic {loc} {}", msg.replace('\n', " "))]
        }
    }
}
thread_local! { pub static LAST_PANIC_LOC: std::cell::RefCell<String> = std::cell::RefCell::new(String::new()); }

fn main() {
    // The cases run on a worker thread (big stack); this thread is a watchdog: a case that makes no
    // progress for `--case-timeout` seconds ends the process with exit code 86 (the orchestrator
    // records the case as a hang and restarts after it).
    let args: Vec<String> = std::env::args().collect();
    let timeout: u64 = arg(&args, "--case-timeout").map(|s| s.parse().unwrap()).unwrap_or(20);
    let worker = std::thread::Builder::new().stack_size(256 << 20).spawn(real_main).unwrap();
    let mut last = (u64::MAX, std::time::Instant::now());
    loop {
        if worker.is_finished() { break; }
        let cur = PROGRESS.load(std::sync::atomic::Ordering::SeqCst);
        if cur != last.0 { last = (cur, std::time::Instant::now()); }
        else if last.1.elapsed().as_secs() >= timeout {
            eprintln!("TIMEOUT case {cur}");
            std::process::exit(86);
        }
        std::thread::sleep(std::time::Duration::from_millis(50));
    }
    if worker.join().is_err() { eprintln!("harness worker panicked: {}", LAST_PANIC_GLOBAL.lock().map(|g| g.clone()).unwrap_or_default()); std::process::exit(87); }
}

pub static LAST_PANIC_GLOBAL: std::sync::Mutex<String> = std::sync::Mutex::new(String::new());
pub static PROGRESS: std::sync::atomic::AtomicU64 = std::sync::atomic::AtomicU64::new(0);

fn real_main() {
    let args: Vec<String> = std::env::args().collect();
    let start: usize = arg(&args, "--start").map(|s| s.parse().unwrap()).unwrap_or(0);
    let family = args.get(1).cloned().unwrap_or_default();
    let seed: u64 = arg(&args, "--seed").map(|s| s.parse().unwrap()).unwrap_or(1);
    let n: usize = arg(&args, "--cases").map(|s| s.parse().unwrap()).unwrap_or(100);
    let cases_path = arg(&args, "--out-cases").expect("--out-cases");
    let impl_path = arg(&args, "--out-impl").expect("--out-impl");
    let replay = arg(&args, "--replay");
    std::panic::set_hook(Box::new(|info| {
        let loc = info.location().map(|l| format!("{}:{}", l.file(), l.line())).unwrap_or_default();
        if let Ok(mut g) = LAST_PANIC_GLOBAL.lock() { *g = format!("{loc} {}", info.payload().downcast_ref::<String>().cloned().or(info.payload().downcast_ref::<&str>().map(|s| s.to_string())).unwrap_or_default()); }
        LAST_PANIC_LOC.with(|l| *l.borrow_mut() = loc);
    }));
    let mut cases_f = std::io::BufWriter::new(std::fs::File::create(&cases_path).unwrap());
    let mut impl_f = std::io::BufWriter::new(std::fs::File::create(&impl_path).unwrap());
    let mut rng = Rng::new(seed);
    // replay: cases are read from a file instead of generated
    let replayed: Option<Vec<Vec<String>>> = replay.map(|p| {
        let text = std::fs::read_to_string(p).unwrap();
        let mut cases = Vec::new();
        let mut cur: Option<Vec<String>> = None;
        for line in text.lines() {
            if line.starts_with("case ") { cur = Some(Vec::new()); }
            else if line == "end" { if let Some(c) = cur.take() { cases.push(c); } }
            else if let Some(c) = cur.as_mut() { c.push(line.to_string()); }
        }
        cases
    });
    let total = replayed.as_ref().map(|c| c.len()).unwrap_or(n);
    for i in 0..total {
        let mut crng = rng.fork();
        let lines: Vec<String> = match &replayed {
            Some(cs) => cs[i].clone(),
            None => match family.as_str() {
                "mapping" => mapping::gen_case(&mut crng),
                "amo" => amo::gen_case(&mut crng, i),
                "cache" => cache::gen_case(&mut crng),
                "pool" => pool::gen_case(&mut crng),
                "containers" => containers::gen_case(&mut crng),
                "snapshot" => snapshot::gen_case(&mut crng),
                "solve" => { let k = if crng.chance(1, 12) { gen::Kind::Tower } else if crng.chance(1, 40) { gen::Kind::Gadgets } else { *crng.pick(&[gen::Kind::General, gen::Kind::General, gen::Kind::Tight, gen::Kind::Tight, gen::Kind::Hints, gen::Kind::CycleMerge]) }; solve::gen_case(&mut crng, k) }
                "soft" => solve::gen_case(&mut crng, gen::Kind::Soft),
                "lazy" => solve::gen_case(&mut crng, gen::Kind::Lazy),
                "hints" => solve::gen_case(&mut crng, gen::Kind::Hints),
                "cancel" => solve::gen_cancel_case(&mut crng),
                "cancel-async" => solve::gen_cancel_async_case(&mut crng),
                "reuse" => solve::gen_reuse_case(&mut crng, false),
                "reuse-async" => solve::gen_reuse_case(&mut crng, true),
                "amo-solve" => solve::gen_amo_solve_case(&mut crng, i),
                "async" => solve::gen_async_case(&mut crng, false),
                "async-cf" => solve::gen_async_case(&mut crng, true),
                "conflictfree" => solve::gen_case(&mut crng, gen::Kind::ConflictFree),
                f => panic!("unknown family {f}"),
            },
        };
        if i < start { continue; }
        PROGRESS.store(i as u64, std::sync::atomic::Ordering::SeqCst);
        writeln!(cases_f, "case {i} {family}").unwrap();
        for l in &lines { writeln!(cases_f, "{l}").unwrap(); }
        writeln!(cases_f, "end").unwrap();
        cases_f.flush().unwrap();
        let l2 = lines.clone();
        let l3 = lines.clone();
        let mut out = match family.as_str() {
            "mapping" => guarded(move || mapping::run_case(&l2)),
            "amo" => guarded(move || amo::run_case(&l2)),
            "cache" => guarded(move || cache::run_case(&l2)),
            "pool" => guarded(move || pool::run_case(&l2)),
            "containers" => vec!["generated-only".to_string()],
            "snapshot" => guarded(move || snapshot::run_case(&l2)),
            "solve" | "soft" | "conflictfree" | "lazy" | "hints" | "cancel" | "cancel-async" | "reuse" | "reuse-async" | "async" | "async-cf" | "amo-solve" => guarded(move || solve::run_case(&l2)),
            f => panic!("unknown family {f}"),
        };
        // C06 (in-process part): a second run with fresh solver instances must give identical observations
        if arg(&args, "--twice").is_some() {
            let out2 = match family.as_str() {
                "snapshot" => guarded(move || snapshot::run_case(&l3)),
                _ => guarded(move || solve::run_case(&l3)),
            };
            let same = out == out2;
            out.push(format!("rerun-same {}", same as u8));
        }
        writeln!(impl_f, "case {i} {family}").unwrap();
        for l in &out { writeln!(impl_f, "{l}").unwrap(); }
        writeln!(impl_f, "end").unwrap();
        impl_f.flush().unwrap();
    }
}
