mod amo;
mod mapping;
mod rng;

use rng::Rng;
use std::io::Write;

fn arg(args: &[String], name: &str) -> Option<String> {
    args.iter().position(|a| a == name).and_then(|i| args.get(i + 1).cloned())
}

/// Runs `f` catching panics; a panic becomes a single `panic <location>` output line.
pub fn guarded(f: impl FnOnce() -> Vec<String> + std::panic::UnwindSafe) -> Vec<String> {
    match std::panic::catch_unwind(f) {
        Ok(v) => v,
        Err(e) => {
            let msg = if let Some(s) = e.downcast_ref::<String>() { s.clone() }
                else if let Some(s) = e.downcast_ref::<&str>() { s.to_string() } else { "?".into() };
            let loc = LAST_PANIC_LOC.with(|l| l.borrow().clone());
            vec![format!("panic {loc} {}", msg.replace('\n', " "))]
        }
    }
}
thread_local! { pub static LAST_PANIC_LOC: std::cell::RefCell<String> = std::cell::RefCell::new(String::new()); }

fn main() {
    let args: Vec<String> = std::env::args().collect();
    let family = args.get(1).cloned().unwrap_or_default();
    let seed: u64 = arg(&args, "--seed").map(|s| s.parse().unwrap()).unwrap_or(1);
    let n: usize = arg(&args, "--cases").map(|s| s.parse().unwrap()).unwrap_or(100);
    let cases_path = arg(&args, "--out-cases").expect("--out-cases");
    let impl_path = arg(&args, "--out-impl").expect("--out-impl");
    let replay = arg(&args, "--replay");
    std::panic::set_hook(Box::new(|info| {
        let loc = info.location().map(|l| format!("{}:{}", l.file(), l.line())).unwrap_or_default();
        LAST_PANIC_LOC.with(|l| *l.borrow_mut() = loc);
    }));
    let mut cases_f = std::io::BufWriter::new(std::fs::File::create(&cases_path).unwrap());
    let mut impl_f = std::io::BufWriter::new(std::fs::File::create(&impl_path).unwrap());
    let mut rng = Rng::new(seed);
    // replay: cases are read from a file instead of generated
    let replayed: Option<Vec<Vec<String>>> = replay.map(|p| {
        let text = std::fs::read_to_string(p).unwrap();
        let mut cases = Vec::new();
        let mut cur: Option<Vec<String>> = None;
        for line in text.lines() {
            if line.starts_with("case ") { cur = Some(Vec::new()); }
            else if line == "end" { if let Some(c) = cur.take() { cases.push(c); } }
            else if let Some(c) = cur.as_mut() { c.push(line.to_string()); }
        }
        cases
    });
    let total = replayed.as_ref().map(|c| c.len()).unwrap_or(n);
    for i in 0..total {
        let mut crng = rng.fork();
        let lines: Vec<String> = match &replayed {
            Some(cs) => cs[i].clone(),
            None => match family.as_str() {
                "mapping" => mapping::gen_case(&mut crng),
                "amo" => amo::gen_case(&mut crng, i),
                f => panic!("unknown family {f}"),
            },
        };
        let l2 = lines.clone();
        let out = match family.as_str() {
            "mapping" => guarded(move || mapping::run_case(&l2)),
            "amo" => guarded(move || amo::run_case(&l2)),
            f => panic!("unknown family {f}"),
        };
        writeln!(cases_f, "case {i} {family}").unwrap();
        for l in &lines { writeln!(cases_f, "{l}").unwrap(); }
        writeln!(cases_f, "end").unwrap();
        writeln!(impl_f, "case {i} {family}").unwrap();
        for l in &out { writeln!(impl_f, "{l}").unwrap(); }
        writeln!(impl_f, "end").unwrap();
    }
}
