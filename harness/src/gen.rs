//! Structured generators of provider universes and problems.
use crate::rng::Rng;
use crate::universe::*;

#[derive(Clone, Copy, PartialEq, Eq, Debug)]
pub enum Kind { General, Soft, ConflictFree, Hints, Tight, Lazy, CycleMerge, SoftBackjump, LazyUnsat, FalseThenTrue, SoftPoison, Tower, Gadgets }

pub struct Generated { pub u: Universe, pub p: Problem }

fn subset(rng: &mut Rng, xs: &[u32], style: u64) -> Vec<u32> {
    if xs.is_empty() { return vec![]; }
    match style {
        0 => xs.to_vec(),                                                  // any version
        1 => vec![*rng.pick(xs)],                                          // exactly one
        2 => { let k = rng.range(1, xs.len() as u64) as usize; xs[..k].to_vec() } // prefix ("< v")
        3 => { let k = rng.below(xs.len() as u64) as usize; xs[k..].to_vec() }    // suffix (">= v")
        4 => vec![],                                                       // matches nothing
        _ => xs.iter().copied().filter(|_| rng.chance(1, 2)).collect(),
    }
}

pub fn generate(rng: &mut Rng, kind: Kind) -> Generated {
    let mut g = generate_opts(rng, kind, false);
    // 1/5 of the providers hand back the result of `filter_candidates` in reverse input order: the trait promises no order,
    // and code that derives one filter result from another (or assumes input order) is wrong for them
    if rng.chance(1, 5) { g.u.filter_rev = true; }
    // 1/4 of the universes have ties in the sort key (several builds of one version): `sort_candidates` is a stable sort,
    // so the order among tied candidates is the order in which `filter_candidates` handed them over
    if rng.chance(1, 4) {
        let names: Vec<u32> = g.u.pkgs.keys().copied().collect();
        for n in names {
            if rng.chance(1, 2) {
                let cs = g.u.pkgs[&n].cands.clone();
                for c in cs { if let Some(sv) = g.u.solvs.get_mut(&c) { sv.rank /= 2; } }
            }
        }
    }
    g
}

/// Many small conflicts in one solve: 18..28 independent gadgets, each of which costs the solver at least one conflict (the
/// preferred candidate of `g` needs `x` and `y`, and `y` constrains `x` away from its preferred candidate; in some gadgets the
/// fallback of `x` is excluded as well, so that `g` itself has to fall back). Anything the solver does every n-th conflict -
/// restarts, activity rescaling, clause-database housekeeping - only shows on inputs like this; the other shapes stay below
/// ten conflicts.
pub fn generate_gadgets(rng: &mut Rng) -> Generated {
    let mut u = Universe::default();
    let mut p = Problem::default();
    let k = rng.range(18, 28) as u32;
    let hint_all = rng.chance(1, 3);
    let mut next_s = 0u32;
    let mut next_v = 0u32;
    for i in 0..k {
        let (gn, xn, yn) = (3 * i, 3 * i + 1, 3 * i + 2);
        let (g2, g1, x2, x1, y2, y1) = (next_s, next_s + 1, next_s + 2, next_s + 3, next_s + 4, next_s + 5);
        next_s += 6;
        let (vg, vx, vy, vx1) = (next_v, next_v + 1, next_v + 2, next_v + 3);
        next_v += 4;
        let hint = if hint_all { Hint::All } else { Hint::None };
        u.pkgs.insert(gn, Pkg { cands: vec![g2, g1], hint: hint.clone(), ..Default::default() });
        let mut xp = Pkg { cands: vec![x2, x1], hint: hint.clone(), ..Default::default() };
        if rng.chance(1, 4) { xp.excluded.push((x1, 0)); }
        u.pkgs.insert(xn, xp);
        u.pkgs.insert(yn, Pkg { cands: vec![y2, y1], hint, ..Default::default() });
        u.vsets.insert(vg, VSet { name: gn, matching: vec![g2, g1] });
        u.vsets.insert(vx, VSet { name: xn, matching: vec![x2, x1] });
        u.vsets.insert(vy, VSet { name: yn, matching: vec![y2, y1] });
        u.vsets.insert(vx1, VSet { name: xn, matching: vec![x1] });
        // x is required before y, so it is decided first; both candidates of y then rule the chosen x=2 out
        u.solvs.insert(g2, Solv { name: gn, rank: 0, deps: Deps::Known { reqs: vec![Req::Single(vx), Req::Single(vy)], cons: vec![] } });
        u.solvs.insert(g1, Solv { name: gn, rank: 1, deps: Deps::Known { reqs: vec![], cons: vec![] } });
        u.solvs.insert(x2, Solv { name: xn, rank: 0, deps: Deps::Known { reqs: vec![], cons: vec![] } });
        u.solvs.insert(x1, Solv { name: xn, rank: 1, deps: Deps::Known { reqs: vec![], cons: vec![] } });
        u.solvs.insert(y2, Solv { name: yn, rank: 0, deps: Deps::Known { reqs: vec![], cons: vec![vx1] } });
        u.solvs.insert(y1, Solv { name: yn, rank: 1, deps: Deps::Known { reqs: vec![], cons: vec![vx1] } });
        p.reqs.push(Req::Single(vg));
    }
    rng.shuffle(&mut p.reqs);
    Generated { u, p }
}

/// A ladder of diamonds: packages x0..xN with 2-3 versions each, every version of x(i) requires a (random) two of the
/// versions of x(i+1), so every candidate is reachable over several parents (exponentially many root-to-leaf paths over
/// linearly many candidates); a further root requirement `z` constrains the bottom package to a version that does not
/// exist. On its own every candidate is installable, so the renderer has to explain a large *installable* DAG with
/// sharing - the shape on which a renderer that re-explains shared candidates blows up (C04: output bounded by the
/// size of the conflict).
pub fn generate_tower(rng: &mut Rng) -> Generated {
    let mut u = Universe::default();
    let layers = rng.range(3, 7) as usize;
    let width = rng.range(2, 3) as usize;
    let mut next_v = 0u32;
    let sid = |layer: usize, k: usize| (layer * 3 + k) as u32;
    for layer in 0..=layers {
        let cs: Vec<u32> = (0..width).map(|k| sid(layer, k)).collect();
        u.pkgs.insert(layer as u32, Pkg { cands: cs.clone(), hint: if rng.chance(1, 4) { Hint::All } else { Hint::None }, ..Default::default() });
    }
    for layer in 0..=layers {
        for k in 0..width {
            let reqs = if layer < layers {
                let a = k; let b = (k + 1 + rng.below(width as u64 - 1) as usize) % width;
                let mut m = vec![sid(layer + 1, a), sid(layer + 1, b)]; m.sort(); m.dedup();
                u.vsets.insert(next_v, VSet { name: layer as u32 + 1, matching: m }); next_v += 1;
                vec![Req::Single(next_v - 1)]
            } else { vec![] };
            u.solvs.insert(sid(layer, k), Solv { name: layer as u32, rank: k as u32, deps: Deps::Known { reqs, cons: vec![] } });
        }
    }
    let z_name = layers as u32 + 1;
    let z = sid(layers + 1, 0);
    // nothing of the bottom package matches this version set
    u.vsets.insert(next_v, VSet { name: layers as u32, matching: vec![] }); let none_vs = next_v; next_v += 1;
    u.solvs.insert(z, Solv { name: z_name, rank: 0, deps: Deps::Known { reqs: vec![], cons: vec![none_vs] } });
    u.pkgs.insert(z_name, Pkg { cands: vec![z], ..Default::default() });
    u.vsets.insert(next_v, VSet { name: 0, matching: (0..width).map(|k| sid(0, k)).collect() }); let x0_any = next_v; next_v += 1;
    u.vsets.insert(next_v, VSet { name: z_name, matching: vec![z] }); let z_any = next_v;
    let mut p = Problem::default();
    p.reqs.push(Req::Single(x0_any));
    p.reqs.push(Req::Single(z_any));
    if rng.chance(1, 2) { p.reqs.reverse(); }
    Generated { u, p }
}

/// Conflicts whose graph has a `requires` cycle through merge groups: a ring of 2-3 packages whose versions all share
/// one dependency list (next ring member + an extra that may be impossible), entered from different versions of a top
/// package, with leaf packages whose version sets exclude each other. The renderer's `reported` bookkeeping, the
/// graph simplification and analyze_unsolvable's cycle handling are the target.
pub fn generate_cycle_merge(rng: &mut Rng) -> Generated {
    let mut u = Universe::default();
    let mut next_s = 0u32;
    let mut next_v = 0u32;
    let ring = rng.range(2, 3) as usize;
    let n_leaf = rng.range(1, 2) as usize;
    // names: 0 = top, 1..=ring = ring members, then leaves, then a middle package `d`
    let leaf0 = 1 + ring;
    let d_name = (leaf0 + n_leaf) as u32;
    let mut cands: Vec<Vec<u32>> = Vec::new();
    let sizes: Vec<usize> = (0..=d_name as usize).map(|n| if n == 0 { rng.range(2, 3) as usize } else if n <= ring { rng.range(1, 3).max(rng.range(1, 3)) as usize } else { rng.range(1, 3) as usize }).collect();
    for sz in &sizes { cands.push((0..*sz).map(|_| { let s = next_s; next_s += 1; s }).collect()); }
    let mut any_vs = Vec::new();
    let mut one_vs: Vec<Vec<u32>> = Vec::new();
    for (n, cs) in cands.iter().enumerate() {
        u.vsets.insert(next_v, VSet { name: n as u32, matching: cs.clone() }); any_vs.push(next_v); next_v += 1;
        let mut ones = Vec::new();
        for &c in cs { u.vsets.insert(next_v, VSet { name: n as u32, matching: vec![c] }); ones.push(next_v); next_v += 1; }
        one_vs.push(ones);
    }
    let leaf_vs = |rng: &mut Rng| -> u32 { let l = leaf0 + rng.below(n_leaf as u64) as usize; if rng.chance(3, 4) { *rng.pick(&one_vs[l]) } else { any_vs[l] } };
    for (n, cs) in cands.iter().enumerate() {
        let shared: Vec<Req> = if n == 0 { vec![] } else if n <= ring {
            let next = 1 + (n % ring);
            let mut r = vec![Req::Single(any_vs[next])];
            match rng.below(4) { 0 => {} 1 => r.push(Req::Single(any_vs[d_name as usize])), _ => r.push(Req::Single(leaf_vs(rng))) }
            if rng.chance(1, 2) { r.reverse(); }
            r
        } else if n as u32 == d_name { vec![Req::Single(leaf_vs(rng))] } else { vec![] };
        for (i, &c) in cs.iter().enumerate() {
            let reqs = if n == 0 { vec![Req::Single(any_vs[1 + rng.below(ring as u64) as usize])] }
                else if n <= ring && i > 0 && rng.chance(1, 6) { vec![Req::Single(any_vs[1 + (n % ring)])] } // an unmerged sibling now and then
                else if n as u32 == d_name && rng.chance(1, 2) { vec![Req::Single(leaf_vs(rng))] }
                else { shared.clone() };
            let cons = if n > ring && rng.chance(1, 6) { vec![leaf_vs(rng)] } else { vec![] };
            u.solvs.insert(c, Solv { name: n as u32, rank: i as u32, deps: Deps::Known { reqs, cons } });
        }
        let hint = match rng.below(4) { 0 => Hint::All, _ => Hint::None };
        u.pkgs.insert(n as u32, Pkg { cands: cs.clone(), hint, ..Default::default() });
    }
    let mut p = Problem::default();
    p.reqs.push(Req::Single(any_vs[0]));
    if rng.chance(1, 4) { p.reqs.push(Req::Single(leaf_vs(rng))); }
    if rng.chance(1, 6) { p.cons.push(leaf_vs(rng)); }
    Generated { u, p }
}

/// Soft requirements whose run learns a clause made of level-1 facts only (an excluded / locked-out candidate) and
/// therefore wants to backjump *below* the level the soft run started from, after which the hard requirements are
/// re-decided in another order (the learnt clause bumped a package's activity) and may select candidates that were
/// never part of a partial solution before (never encoded), some of which are uninstallable.
pub fn generate_soft_backjump(rng: &mut Rng) -> Generated {
    let mut u = Universe::default();
    let mut next_s = 0u32;
    let mut next_v = 0u32;
    // names: 0 = a, 1 = b, 2 = x (required by the soft solvable), 3 = s (soft), 4.. = leaves, last+1 = never provided
    let n_leaf = rng.range(1, 2) as usize;
    let n_names = 4 + n_leaf;
    let missing_name = n_names as u32;
    let sizes: Vec<usize> = (0..n_names).map(|n| match n { 0 => rng.range(2, 4) as usize, 1 => rng.range(2, 4) as usize, 2 => rng.range(1, 3) as usize, 3 => 1, _ => rng.range(1, 2) as usize }).collect();
    let mut cands: Vec<Vec<u32>> = Vec::new();
    for sz in &sizes { cands.push((0..*sz).map(|_| { let s = next_s; next_s += 1; s }).collect()); }
    let mut any_vs = Vec::new();
    let mut one_vs: Vec<Vec<u32>> = Vec::new();
    for (n, cs) in cands.iter().enumerate() {
        u.vsets.insert(next_v, VSet { name: n as u32, matching: cs.clone() }); any_vs.push(next_v); next_v += 1;
        let mut ones = Vec::new();
        for &c in cs { u.vsets.insert(next_v, VSet { name: n as u32, matching: vec![c] }); ones.push(next_v); next_v += 1; }
        one_vs.push(ones);
    }
    // version sets of b: "all but the best", "the worst only"
    let b = &cands[1];
    let b_low = next_v; u.vsets.insert(next_v, VSet { name: 1, matching: b[1..].to_vec() }); next_v += 1;
    let b_worst = *one_vs[1].last().unwrap();
    let nothing = next_v; u.vsets.insert(next_v, VSet { name: missing_name, matching: vec![] }); next_v += 1;
    let empty_leaf = next_v; u.vsets.insert(next_v, VSet { name: 4, matching: vec![] });
    let unsat_req = |rng: &mut Rng| -> Req { match rng.below(3) { 0 => Req::Single(nothing), 1 => Req::Single(empty_leaf), _ => Req::Single(any_vs[4 + rng.below(n_leaf as u64) as usize]) } };
    for (n, cs) in cands.iter().enumerate() {
        for (i, &c) in cs.iter().enumerate() {
            let last = i + 1 == cs.len();
            let (reqs, cons): (Vec<Req>, Vec<u32>) = match n {
                // a: the better versions forbid the best b; the worst a needs something that may not exist
                0 => if !last { (vec![], if rng.chance(5, 6) { vec![b_low] } else { vec![] }) } else { (vec![unsat_req(rng)], vec![]) },
                1 => (vec![], vec![]),
                // x: the best version needs the excluded / worst b
                2 => if i == 0 { (vec![Req::Single(if rng.chance(3, 4) { b_worst } else { b_low })], vec![]) } else if rng.chance(1, 3) { (vec![unsat_req(rng)], vec![]) } else { (vec![], vec![]) },
                3 => (vec![Req::Single(any_vs[2])], vec![]),
                _ => (if rng.chance(1, 3) { vec![unsat_req(rng)] } else { vec![] }, vec![]),
            };
            u.solvs.insert(c, Solv { name: n as u32, rank: i as u32, deps: Deps::Known { reqs, cons } });
        }
        let mut p = Pkg { cands: cs.clone(), ..Default::default() };
        if n == 1 {
            // the worst b cannot be installed: excluded, or locked out
            if rng.chance(2, 3) { p.excluded.push((*cs.last().unwrap(), 0)); } else if cs.len() > 2 { p.locked = Some(cs[rng.below(cs.len() as u64 - 1) as usize]); } else { p.excluded.push((*cs.last().unwrap(), 1)); }
        }
        u.pkgs.insert(n as u32, p);
    }
    let mut p = Problem::default();
    p.reqs.push(Req::Single(any_vs[0]));
    p.reqs.push(Req::Single(any_vs[1]));
    if rng.chance(1, 2) { p.reqs.reverse(); }
    p.soft.push(cands[3][0]);
    if rng.chance(1, 3) { p.soft.push(*rng.pick(&cands[2])); }
    if rng.chance(1, 3) { p.soft.insert(0, *rng.pick(&cands[4])); }
    Generated { u, p }
}

/// Unsolvable (mostly) problems whose refutation is assembled from facts discovered lazily, one restart at a time:
/// a chain root -> app -> lib; lib needs a union (x=i | y=j) and some y; every y needs a particular x; some x cannot be
/// installed, which is only found out once they are selected (missing package, empty version set, or a constrains that
/// rules out the app). The final level-1 trail then reuses clauses that are already antecedents of learnt clauses.
pub fn generate_lazy_unsat(rng: &mut Rng) -> Generated {
    let mut u = Universe::default();
    let sizes = [rng.range(1, 2) as usize, rng.range(1, 2) as usize, rng.range(2, 4) as usize, rng.range(2, 3) as usize];
    let mut next_s = 0u32;
    let mut cands: Vec<Vec<u32>> = Vec::new();
    for sz in &sizes { cands.push((0..*sz).map(|_| { let s = next_s; next_s += 1; s }).collect()); }
    let mut next_v = 0u32;
    let mut any_vs = Vec::new();
    let mut one_vs: Vec<Vec<u32>> = Vec::new();
    for (n, cs) in cands.iter().enumerate() {
        u.vsets.insert(next_v, VSet { name: n as u32, matching: cs.clone() }); any_vs.push(next_v); next_v += 1;
        let mut ones = Vec::new();
        for &c in cs { u.vsets.insert(next_v, VSet { name: n as u32, matching: vec![c] }); ones.push(next_v); next_v += 1; }
        one_vs.push(ones);
    }
    let ghost = next_v; u.vsets.insert(next_v, VSet { name: 4, matching: vec![] }); next_v += 1;
    let no_x = next_v; u.vsets.insert(next_v, VSet { name: 2, matching: vec![] }); next_v += 1;
    let no_app = next_v; u.vsets.insert(next_v, VSet { name: 0, matching: vec![] }); next_v += 1;
    let y_sub = next_v; { let ys = &cands[3]; let k = rng.range(1, ys.len() as u64) as usize; let from = rng.below((ys.len() - k + 1) as u64) as usize; u.vsets.insert(next_v, VSet { name: 3, matching: ys[from..from + k].to_vec() }); }
    let mut next_u = 0u32;
    for (n, cs) in cands.iter().enumerate() {
        for (i, &c) in cs.iter().enumerate() {
            let (reqs, cons): (Vec<Req>, Vec<u32>) = match n {
                0 => (vec![Req::Single(if rng.chance(1, 2) { any_vs[1] } else { *rng.pick(&one_vs[1]) })], vec![]),
                1 => {
                    let un = next_u; next_u += 1;
                    let mut members = vec![*rng.pick(&one_vs[2]), *rng.pick(&one_vs[3])];
                    if rng.chance(1, 3) { members.reverse(); }
                    u.unions.insert(un, members);
                    let mut r = vec![Req::Union(un), Req::Single(if rng.chance(2, 3) { y_sub } else { any_vs[3] })];
                    if rng.chance(1, 3) { r.reverse(); }
                    (r, vec![])
                }
                2 => match rng.below(6) { 0 => (vec![Req::Single(ghost)], vec![]), 1 => (vec![Req::Single(no_x)], vec![]), 2 => (vec![], vec![no_app]), 3 => (vec![Req::Single(*rng.pick(&one_vs[3]))], vec![]), _ => (vec![], vec![]) },
                _ => (vec![Req::Single(*rng.pick(&one_vs[2]))], if rng.chance(1, 5) { vec![*rng.pick(&one_vs[2])] } else { vec![] }),
            };
            u.solvs.insert(c, Solv { name: n as u32, rank: i as u32, deps: Deps::Known { reqs, cons } });
        }
        u.pkgs.insert(n as u32, Pkg { cands: cs.clone(), ..Default::default() });
    }
    let mut p = Problem::default();
    p.reqs.push(Req::Single(any_vs[0]));
    if rng.chance(1, 4) { p.reqs.push(Req::Single(*rng.pick(&one_vs[3]))); }
    Generated { u, p }
}

/// A candidate whose dependencies are cheaply available (hinted, or cached by an earlier solve) is *false* when the
/// first requirement that lists it is encoded and is selected later: the better versions of `a` need `q` and
/// constrain `c` away from its best candidates, `q` needs `c`, the worst `a` needs `c` directly; the candidates of `c`
/// have dependencies of their own (`d`), some of them impossible. `hinted`: `a` and `c` hint all their candidates, `q` does not.
pub fn generate_false_then_true(rng: &mut Rng, hinted: bool) -> Generated {
    let mut u = Universe::default();
    let sizes = [rng.range(2, 3) as usize, rng.range(1, 2) as usize, rng.range(2, 3) as usize, rng.range(1, 2) as usize];
    let mut next_s = 0u32;
    let mut cands: Vec<Vec<u32>> = Vec::new();
    for sz in &sizes { cands.push((0..*sz).map(|_| { let s = next_s; next_s += 1; s }).collect()); }
    let mut next_v = 0u32;
    let mut any_vs = Vec::new();
    let mut one_vs: Vec<Vec<u32>> = Vec::new();
    for (n, cs) in cands.iter().enumerate() {
        u.vsets.insert(next_v, VSet { name: n as u32, matching: cs.clone() }); any_vs.push(next_v); next_v += 1;
        let mut ones = Vec::new();
        for &c in cs { u.vsets.insert(next_v, VSet { name: n as u32, matching: vec![c] }); ones.push(next_v); next_v += 1; }
        one_vs.push(ones);
    }
    // c restricted to everything but its best candidate(s)
    let c_low = next_v; { let cs = &cands[2]; let k = rng.range(1, cs.len() as u64 - 1) as usize; u.vsets.insert(next_v, VSet { name: 2, matching: cs[k..].to_vec() }); } next_v += 1;
    let no_d = next_v; u.vsets.insert(next_v, VSet { name: 3, matching: vec![] }); next_v += 1;
    // a version set of c that none of its candidates satisfies: a constrains on it forbids every c
    let no_c = next_v; u.vsets.insert(next_v, VSet { name: 2, matching: vec![] });
    for (n, cs) in cands.iter().enumerate() {
        for (i, &c) in cs.iter().enumerate() {
            let last = i + 1 == cs.len();
            let (reqs, cons): (Vec<Req>, Vec<u32>) = match n {
                0 => if !last { (vec![Req::Single(any_vs[1])], vec![if rng.chance(2, 3) { no_c } else { c_low }]) } else { (vec![Req::Single(if rng.chance(2, 3) { any_vs[2] } else { one_vs[2][0] })], vec![]) },
                1 => (vec![Req::Single(if rng.chance(2, 3) { any_vs[2] } else { one_vs[2][0] })], vec![]),
                2 => (vec![Req::Single(if rng.chance(1, 4) { no_d } else { any_vs[3] })], vec![]),
                _ => (vec![], vec![]),
            };
            u.solvs.insert(c, Solv { name: n as u32, rank: i as u32, deps: Deps::Known { reqs, cons } });
        }
        // `a` and `c` are cheaply available, `q` is not: the clauses of the better `a` exist before `q` reveals `c`
        let hint = if hinted && (n == 0 || n == 2 || (n == 3 && rng.chance(1, 2))) { Hint::All } else { Hint::None };
        u.pkgs.insert(n as u32, Pkg { cands: cs.clone(), hint, ..Default::default() });
    }
    let mut p = Problem::default();
    p.reqs.push(Req::Single(any_vs[0]));
    Generated { u, p }
}

/// Soft requirements and the documented exemption: the first soft requirement names an excluded or locked-out
/// solvable of a package nobody has requested yet, a later one requests that package through a version set, the
/// last one is trivially installable (open known finding C14 soft-poisoned; also exercises rejected-then-retried
/// soft runs whose first encode fails)
pub fn generate_soft_poison(rng: &mut Rng) -> Generated {
    let mut u = Universe::default();
    // names: 0 = r (hard), 1 = d (the package with an exclusion / lock), 2 = e (requires d), 3 = f (free), 4 = x
    let sizes = [rng.range(1, 2) as usize, rng.range(2, 3) as usize, 1usize, rng.range(1, 2) as usize, rng.range(1, 2) as usize];
    let mut next_s = 0u32;
    let mut cands: Vec<Vec<u32>> = Vec::new();
    for sz in &sizes { cands.push((0..*sz).map(|_| { let s = next_s; next_s += 1; s }).collect()); }
    let mut next_v = 0u32;
    let mut any_vs = Vec::new();
    for (n, cs) in cands.iter().enumerate() { u.vsets.insert(next_v, VSet { name: n as u32, matching: cs.clone() }); any_vs.push(next_v); next_v += 1; }
    for (n, cs) in cands.iter().enumerate() {
        for (i, &c) in cs.iter().enumerate() {
            let reqs: Vec<Req> = match n { 2 => vec![Req::Single(any_vs[1])], 4 if rng.chance(1, 2) => vec![Req::Single(any_vs[3])], _ => vec![] };
            let cons: Vec<u32> = if n == 4 && rng.chance(1, 3) { vec![any_vs[0]] } else { vec![] };
            u.solvs.insert(c, Solv { name: n as u32, rank: i as u32, deps: Deps::Known { reqs, cons } });
        }
        let mut p = Pkg { cands: cs.clone(), ..Default::default() };
        if n == 1 { if rng.chance(1, 2) { p.excluded.push((cs[0], 0)); } else { p.locked = Some(cs[1]); } }
        if rng.chance(1, 4) { p.hint = Hint::All; }
        u.pkgs.insert(n as u32, p);
    }
    let mut p = Problem::default();
    p.reqs.push(Req::Single(any_vs[0]));
    p.soft.push(cands[1][0]);                  // excluded / locked out, package not requested yet: accepted under the exemption
    if rng.chance(1, 3) { p.soft.push(*rng.pick(&cands[4])); }
    p.soft.push(cands[2][0]);                  // requests package d through a version set
    if rng.chance(1, 2) { p.soft.push(*rng.pick(&cands[4])); }
    p.soft.push(cands[3][0]);                  // nothing stands in its way
    Generated { u, p }
}

pub fn generate_opts(rng: &mut Rng, kind: Kind, force_sparse: bool) -> Generated {
    if kind == Kind::CycleMerge { return generate_cycle_merge(rng); }
    if kind == Kind::Tower { return generate_tower(rng); }
    if kind == Kind::Gadgets { return generate_gadgets(rng); }
    if kind == Kind::SoftPoison || (kind == Kind::Soft && rng.chance(1, 12)) { return generate_soft_poison(rng); }
    if kind == Kind::FalseThenTrue { let h = rng.chance(2, 3); return generate_false_then_true(rng, h); }
    if kind == Kind::Hints && rng.chance(1, 8) { return generate_false_then_true(rng, true); }
    if kind == Kind::LazyUnsat || (kind == Kind::Lazy && rng.chance(1, 5)) { return generate_lazy_unsat(rng); }
    if kind == Kind::SoftBackjump || (kind == Kind::Soft && rng.chance(1, 6)) { return generate_soft_backjump(rng); }
    // the soft family alternates between general and tight (conflict-heavy) universes
    let soft = kind == Kind::Soft;
    // the lazy family: no availability hints at all, more locks and constrains (C09's setting)
    let lazy = kind == Kind::Lazy;
    let kind = if lazy { if rng.chance(1, 2) { Kind::General } else { Kind::Tight } } else { kind };
    let kind = if soft && rng.chance(1, 2) { Kind::Tight } else { kind };
    // the hints family: half of the universes are tight and constrains-heavy, so that hinted candidates are
    // often false (by propagation) when a requirement first reveals them, and selected later after backtracking
    let hints = kind == Kind::Hints;
    let hint_tight = hints && rng.chance(1, 2);
    let kind = if hint_tight { Kind::Tight } else { kind };
    let n_names = match kind { Kind::Tight => rng.range(3, 6), _ => rng.range(1, 8) } as u32;
    let sparse = force_sparse || rng.chance(1, 6);
    // 1/5 of the universes are "clone heavy": most candidates of a package share one dependency list and requirements
    // point upwards as often as downwards, so conflicts contain cycles all of whose nodes are merge groups
    let clone_heavy = kind != Kind::ConflictFree && rng.chance(1, 5);
    // --- solvable ids
    let mut cands_per_name: Vec<usize> = (0..n_names).map(|_| {
        if kind == Kind::Tight { rng.range(2, 5) as usize } else if rng.chance(1, 8) { rng.range(5, 9) as usize } else { rng.range(1, 4) as usize }
    }).collect();
    if cands_per_name.is_empty() { cands_per_name.push(1); }
    let total: usize = cands_per_name.iter().sum();
    let mut ids: Vec<u32> = if sparse { (0..total as u32).map(|i| i * rng.range(2, 5) as u32 + rng.below(2) as u32).collect::<Vec<_>>() } else { (0..total as u32).collect() };
    ids.sort(); ids.dedup();
    while ids.len() < total { let n = ids.last().copied().unwrap_or(0) + 1 + rng.below(3) as u32; ids.push(n); }
    if rng.chance(1, 2) { rng.shuffle(&mut ids); }
    let mut u = Universe::default();
    let missing: Vec<bool> = (0..n_names).map(|_| kind != Kind::ConflictFree && rng.chance(1, 14)).collect();
    let mut by_name: Vec<Vec<u32>> = Vec::new();
    let mut it = ids.into_iter();
    for n in 0..n_names as usize {
        let cs: Vec<u32> = (0..cands_per_name[n]).map(|_| it.next().unwrap()).collect();
        by_name.push(cs);
    }
    // --- version sets (ids shuffled)
    let mut vs_specs: Vec<(u32, Vec<u32>)> = Vec::new();
    for n in 0..n_names as usize {
        let k = rng.range(2, 4);
        for j in 0..k {
            let style = if j == 0 { 0 } else { rng.below(7) };
            let style = if kind == Kind::ConflictFree && style == 4 { 0 } else { style };
            let style = if kind == Kind::Tight { *rng.pick(&[1u64, 1, 2, 3, 5]) } else { style };
            vs_specs.push((n as u32, subset(rng, &by_name[n], style)));
        }
    }
    let mut vs_ids: Vec<u32> = if sparse { (0..vs_specs.len() as u32).map(|i| i * 3 + 1).collect() } else { (0..vs_specs.len() as u32).collect() };
    rng.shuffle(&mut vs_ids);
    let mut vs_of_name: Vec<Vec<u32>> = vec![vec![]; n_names as usize];
    for (i, (n, m)) in vs_specs.iter().enumerate() {
        u.vsets.insert(vs_ids[i], VSet { name: *n, matching: m.clone() });
        vs_of_name[*n as usize].push(vs_ids[i]);
    }
    let all_vs: Vec<u32> = vs_ids.clone();
    // --- unions
    let n_unions = if kind == Kind::Tight { rng.below(2) } else { rng.below(4) };
    for k in 0..n_unions {
        let len = rng.range(2, 3);
        let same_pkg = rng.chance(1, 2);
        let base = rng.below(n_names as u64) as usize;
        let mut members = Vec::new();
        for _ in 0..len {
            let v = if same_pkg { *rng.pick(&vs_of_name[base]) } else { *rng.pick(&all_vs) };
            members.push(v);
        }
        if rng.chance(1, 10) { let r = members[0]; members.push(r); } // repeated member
        u.unions.insert(if sparse { k as u32 * 2 + 1 } else { k as u32 }, members);
    }
    let union_ids: Vec<u32> = u.unions.keys().copied().collect();
    // --- solvables
    let pick_req = |rng: &mut Rng, from_name: usize, u: &Universe| -> Req {
        if !union_ids.is_empty() && rng.chance(1, 6) { return Req::Union(*rng.pick(&union_ids)); }
        // mostly "downward" (higher-numbered names) to keep a DAG, sometimes anything (cycles)
        let n = if rng.chance(if clone_heavy { 2 } else { 4 }, 5) && from_name + 1 < n_names as usize { rng.range(from_name as u64 + 1, n_names as u64 - 1) as usize } else { rng.below(n_names as u64) as usize };
        let _ = u;
        Req::Single(*rng.pick(&vs_of_name[n]))
    };
    for n in 0..n_names as usize {
        let mut ranks: Vec<u32> = (0..by_name[n].len() as u32).collect();
        rng.shuffle(&mut ranks);
        for (i, &s) in by_name[n].iter().enumerate() {
            // merge groups: a candidate often has exactly the dependencies of its predecessor (the conflict
            // graph merges such siblings; cycles through merged nodes are the renderer's hard case)
            let deps = if i > 0 && kind != Kind::ConflictFree && rng.chance(if clone_heavy { 3 } else { 1 }, 4) { u.solvs[&by_name[n][i - 1]].deps.clone() }
            else if kind != Kind::ConflictFree && rng.chance(1, 25) { Deps::Unknown(rng.below(3) as u32) } else {
                let n_reqs = if kind == Kind::Tight { rng.range(1, 3) } else { *rng.pick(&[0u64, 0, 1, 1, 1, 2, 2, 3]) };
                let reqs: Vec<Req> = (0..n_reqs).map(|_| pick_req(rng, n, &u)).collect();
                let n_cons = if rng.chance(1, if lazy || hint_tight { 2 } else { 4 }) { rng.range(1, 2) } else { 0 };
                let cons: Vec<u32> = (0..n_cons).map(|_| *rng.pick(&all_vs)).collect();
                Deps::Known { reqs, cons }
            };
            u.solvs.insert(s, Solv { name: n as u32, rank: ranks[i], deps });
        }
        if missing[n] { continue; }
        let mut p = Pkg { cands: by_name[n].clone(), ..Default::default() };
        if rng.chance(1, 5) { p.favored = Some(*rng.pick(&by_name[n])); }
        if kind == Kind::ConflictFree && rng.chance(1, 8) {
            // lock the best-ranked (or favored) candidate so that the preferred closure can stay consistent
            let best = p.favored.unwrap_or_else(|| *by_name[n].iter().min_by_key(|s| u.solvs[s].rank).unwrap());
            p.locked = Some(best);
        }
        if kind != Kind::ConflictFree {
            if rng.chance(1, if lazy { 4 } else { 12 }) { p.locked = Some(*rng.pick(&by_name[n])); }
            if rng.chance(1, 9) { for _ in 0..rng.range(1, 2) { let e = *rng.pick(&by_name[n]); if !p.excluded.iter().any(|x| x.0 == e) { p.excluded.push((e, rng.below(3) as u32)); } } }
        }
        let hint_roll = if lazy || (kind == Kind::ConflictFree && rng.chance(1, 2)) { 0 } else if hints { rng.range(1, 2) } else { rng.below(5) };
        p.hint = match hint_roll { 1 => Hint::All, 2 => Hint::Some(by_name[n].iter().copied().filter(|_| rng.chance(1, 2)).collect()), _ => Hint::None };
        u.pkgs.insert(n as u32, p);
    }
    // --- problem
    let mut p = Problem::default();
    let n_reqs = rng.range(1, 3);
    for _ in 0..n_reqs {
        if !union_ids.is_empty() && rng.chance(1, 7) { p.reqs.push(Req::Union(*rng.pick(&union_ids))); }
        else { let n = rng.below((n_names as u64).min(3)) as usize; p.reqs.push(Req::Single(*rng.pick(&vs_of_name[n]))); }
    }
    if rng.chance(1, 5) { p.cons.push(*rng.pick(&all_vs)); }
    if soft && rng.chance(1, 2) {
        // an extra package with the highest name id that nothing refers to: its solvables can only enter
        // the problem as directly named soft requirements (their package's candidates are never fetched)
        // (with a gap of up to two unused name ids below it: per-name vectors must grow by more than one slot)
        let extra_name = n_names + rng.below(3) as u32;
        let base = u.solvs.keys().max().copied().unwrap_or(0) + 1;
        let k = rng.range(1, 3) as u32;
        let mut cands = Vec::new();
        for j in 0..k {
            let n_reqs = rng.range(1, 3);
            let reqs: Vec<Req> = (0..n_reqs).map(|_| Req::Single(*rng.pick(&all_vs))).collect();
            let cons: Vec<u32> = if rng.chance(1, 3) { vec![*rng.pick(&all_vs)] } else { vec![] };
            u.solvs.insert(base + j, Solv { name: extra_name, rank: j, deps: Deps::Known { reqs, cons } });
            cands.push(base + j);
        }
        u.pkgs.insert(extra_name, Pkg { cands: cands.clone(), ..Default::default() });
        for _ in 0..rng.range(1, 2) { p.soft.push(*rng.pick(&cands)); }
    }
    if soft {
        let all_s: Vec<u32> = u.solvs.keys().copied().collect();
        // bias towards solvables of the highest-numbered packages (often never requested by anyone)
        let high: Vec<u32> = u.solvs.iter().filter(|(_, s)| s.name + 2 >= n_names).map(|(k, _)| *k).collect();
        for _ in 0..rng.range(1, 4) { p.soft.push(if !high.is_empty() && rng.chance(1, 2) { *rng.pick(&high) } else { *rng.pick(&all_s) }); }
    }
    Generated { u, p }
}
