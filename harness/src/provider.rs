//! Table-driven `DependencyProvider` with call log, cancellation oracle and (optionally) gated,
//! manually completed futures + the matching single-threaded executor.
use crate::rng::Rng;
use crate::universe::{Deps, Hint, Req, Universe};
use resolvo::runtime::AsyncRuntime;
use resolvo::{
    Candidates, Dependencies, DependencyProvider, HintDependenciesAvailable, Interner, KnownDependencies, NameId,
    Requirement, SolvableId, SolverCache, StringId, VersionSetId, VersionSetUnionId,
};
use std::any::Any;
use std::cell::{Cell, RefCell};
use std::fmt::Display;
use std::future::Future;
use std::pin::Pin;
use std::rc::Rc;
use std::sync::atomic::{AtomicBool, Ordering};
use std::sync::Arc;
use std::task::{Context, Poll, Wake, Waker};

pub fn to_requirement(r: &Req) -> Requirement {
    match r { Req::Single(v) => Requirement::Single(VersionSetId(*v)), Req::Union(u) => Requirement::Union(VersionSetUnionId(*u)) }
}

/// One outstanding provider request in async mode.
pub struct Gate { pub label: String, pub done: bool, pub waker: Option<Waker> }

#[derive(Default)]
pub struct Gates {
    pub gates: RefCell<Vec<Gate>>,
    /// event log: `pending …` at each quiescent point, `complete <label>`
    pub events: RefCell<Vec<String>>,
}

impl Gates {
    pub fn open(&self) -> Vec<usize> {
        self.gates.borrow().iter().enumerate().filter(|(_, g)| !g.done).map(|(i, _)| i).collect()
    }
}

struct GateFuture { gates: Rc<Gates>, idx: usize }
impl Future for GateFuture {
    type Output = ();
    fn poll(self: Pin<&mut Self>, cx: &mut Context<'_>) -> Poll<()> {
        let mut g = self.gates.gates.borrow_mut();
        let gate = &mut g[self.idx];
        if gate.done { Poll::Ready(()) } else { gate.waker = Some(cx.waker().clone()); Poll::Pending }
    }
}

/// `at`: the signal is up at poll number `at` (transient: only at that poll, else from then on).
/// `at_call`: the signal goes up when the provider request number `at_call` (get_candidates and
/// get_dependencies counted together) starts; transient: it is withdrawn when the next request starts.
#[derive(Clone, Debug, Default)]
pub struct CancelPlan { pub at: Option<usize>, pub at_call: Option<usize>, pub transient: bool }

pub struct TableProvider {
    pub u: Universe,
    /// `c<name>` get_candidates, `d<solvable>` get_dependencies, `p<k>`/`P<k>` poll k (P = fired)
    pub log: RefCell<Vec<String>>,
    pub polls: Cell<usize>,
    pub calls_started: Cell<usize>,
    pub raised: Cell<bool>,
    pub cancel: RefCell<CancelPlan>,
    pub gates: Option<Rc<Gates>>,
    pub gate_filter_sort: bool,
    /// only `get_dependencies` suspends on the gates (the asynchronous operations of the cache family)
    pub gate_deps_only: bool,
    pub first_fired: Cell<Option<usize>>,
    /// > 0 while the provider's own `sort_candidates` is running (polls made on its behalf are logged `Q`, not `P`)
    pub in_sort: Cell<u32>,
    pub sort_peeks_deps: bool,
    /// the look-ahead of `sort_candidates` is concurrent (dependencies of all candidates at once, then the candidates of every
    /// package they mention at once) and drops what is outstanding when a request is refused
    pub sort_peeks_join: bool,
    /// the concurrent look-ahead asks for candidates only: the provider reads the dependencies from its own tables
    /// (nothing becomes "cheaply available" to the solver)
    pub sort_peeks_cands_only: bool,
}

impl TableProvider {
    pub fn new(u: Universe) -> Self {
        TableProvider { u, log: RefCell::new(Vec::new()), polls: Cell::new(0), calls_started: Cell::new(0), raised: Cell::new(false), cancel: RefCell::new(CancelPlan::default()),
            gates: None, gate_filter_sort: false, gate_deps_only: false, first_fired: Cell::new(None), in_sort: Cell::new(0), sort_peeks_deps: false, sort_peeks_join: false, sort_peeks_cands_only: false }
    }
    async fn gate(&self, label: String) {
        if let Some(g) = &self.gates {
            let idx = { let mut v = g.gates.borrow_mut(); v.push(Gate { label, done: false, waker: None }); v.len() - 1 };
            GateFuture { gates: g.clone(), idx }.await
        }
    }
    fn request_started(&self) {
        let n = self.calls_started.get();
        self.calls_started.set(n + 1);
        let plan = self.cancel.borrow();
        if let Some(j) = plan.at_call {
            if n == j { self.raised.set(true); } else if plan.transient && n > j { self.raised.set(false); }
        }
    }
    pub fn matches(&self, vs: u32, s: u32) -> bool { self.u.vsets.get(&vs).map(|v| v.matching.contains(&s)).unwrap_or(false) }
}

impl Interner for TableProvider {
    fn display_solvable(&self, solvable: SolvableId) -> impl Display + '_ { format!("{}", solvable.0) }
    fn display_name(&self, name: NameId) -> impl Display + '_ { format!("p{}", name.0) }
    fn display_version_set(&self, version_set: VersionSetId) -> impl Display + '_ { format!("vs{}", version_set.0) }
    fn display_string(&self, string_id: StringId) -> impl Display + '_ { format!("str{}", string_id.0) }
    fn version_set_name(&self, version_set: VersionSetId) -> NameId { NameId(self.u.vsets.get(&version_set.0).map(|v| v.name).unwrap_or(0)) }
    fn solvable_name(&self, solvable: SolvableId) -> NameId { NameId(self.u.solvs.get(&solvable.0).map(|s| s.name).unwrap_or(0)) }
    fn version_sets_in_union(&self, u: VersionSetUnionId) -> impl Iterator<Item = VersionSetId> {
        self.u.unions.get(&u.0).cloned().unwrap_or_default().into_iter().map(VersionSetId)
    }
}

impl TableProvider {
    /// the dependencies of a solvable as the provider's tables have them
    pub fn own_dependencies(&self, solvable: SolvableId) -> Dependencies {
        match self.u.solvs.get(&solvable.0).map(|s| &s.deps) {
            Some(Deps::Known { reqs, cons }) => Dependencies::Known(KnownDependencies {
                requirements: reqs.iter().map(to_requirement).collect(),
                constrains: cons.iter().map(|&v| VersionSetId(v)).collect(),
            }),
            Some(Deps::Unknown(r)) => Dependencies::Unknown(StringId(*r)),
            None => Dependencies::Known(KnownDependencies::default()),
        }
    }
}

impl DependencyProvider for TableProvider {
    async fn filter_candidates(&self, candidates: &[SolvableId], version_set: VersionSetId, inverse: bool) -> Vec<SolvableId> {
        if self.gate_filter_sort { self.gate(format!("f{}{}", version_set.0, if inverse { "i" } else { "" })).await; }
        let mut kept: Vec<SolvableId> = candidates.iter().copied().filter(|c| self.matches(version_set.0, c.0) != inverse).collect();
        if self.u.filter_rev { kept.reverse(); }
        kept
    }

    async fn get_candidates(&self, name: NameId) -> Option<Candidates> {
        self.log.borrow_mut().push(format!("c{}", name.0));
        self.request_started();
        if !self.gate_deps_only { self.gate(format!("c{}", name.0)).await; }
        if self.gates.is_some() { self.log.borrow_mut().push(format!("C{}", name.0)); } // answer obtained
        let p = self.u.pkgs.get(&name.0)?;
        Some(Candidates {
            candidates: p.cands.iter().map(|&s| SolvableId(s)).collect(),
            favored: p.favored.map(SolvableId),
            locked: p.locked.map(SolvableId),
            excluded: p.excluded.iter().map(|&(s, r)| (SolvableId(s), StringId(r))).collect(),
            hint_dependencies_available: match &p.hint {
                Hint::None => HintDependenciesAvailable::None,
                Hint::All => HintDependenciesAvailable::All,
                Hint::Some(l) => HintDependenciesAvailable::Some(l.iter().map(|&s| SolvableId(s)).collect()),
            },
        })
    }

    async fn sort_candidates(&self, solver: &SolverCache<Self>, solvables: &mut [SolvableId]) {
        if self.gate_filter_sort { self.gate(format!("s{}", solvables.first().map(|s| s.0 as i64).unwrap_or(-1))).await; }
        // the look-ahead runs under `Flagged`: every poll of it (and so every cancellation poll made by the SolverCache calls
        // it issues) happens with `in_sort` raised
        let solvables_ro: &[SolvableId] = solvables;
        Flagged { f: Box::pin(async move {
            let solvables = solvables_ro;
        // (a sorter only has something to compare - and to look ahead for - when there are at least two candidates)
        if self.sort_peeks_deps && self.sort_peeks_join && (!self.sort_peeks_cands_only || solvables.len() >= 2) {
                // one pipeline per candidate, all pipelines at once: the candidate's dependencies, then the candidates of every
                // package they mention (so the look-ahead of one candidate polls while the dependencies of another are still
                // in flight); the first refusal drops everything that is outstanding
                let pipelines = solvables.iter().map(|s| async move {
                    let own;
                    let d = if self.sort_peeks_cands_only { own = self.own_dependencies(*s); &own } else { solver.get_or_cache_dependencies(*s).await? };
                    let mut names: Vec<NameId> = Vec::new();
                    if let Dependencies::Known(k) = d {
                        for r in &k.requirements {
                            let vss: Vec<VersionSetId> = match r { Requirement::Single(v) => vec![*v], Requirement::Union(u) => self.version_sets_in_union(*u).collect() };
                            for v in vss { let n = self.version_set_name(v); if !names.contains(&n) { names.push(n); } }
                        }
                    }
                    futures::future::try_join_all(names.iter().map(|n| solver.get_or_cache_candidates(*n))).await?;
                    Ok::<(), Box<dyn Any>>(())
                });
                let _ = futures::future::try_join_all(pipelines).await;
            } else if self.sort_peeks_deps {
                for s in solvables.iter() { let _ = solver.get_or_cache_dependencies(*s).await; }
            }
        }), flag: &self.in_sort }.await;
        solvables.sort_by_key(|s| self.u.solvs.get(&s.0).map(|x| x.rank).unwrap_or(0));
    }

    async fn get_dependencies(&self, solvable: SolvableId) -> Dependencies {
        self.log.borrow_mut().push(format!("d{}", solvable.0));
        self.request_started();
        self.gate(format!("d{}", solvable.0)).await;
        if self.gates.is_some() { self.log.borrow_mut().push(format!("D{}", solvable.0)); } // answer obtained
        self.own_dependencies(solvable)
    }

    fn should_cancel_with_value(&self) -> Option<Box<dyn Any>> {
        let k = self.polls.get();
        self.polls.set(k + 1);
        let plan = self.cancel.borrow();
        let fire = match plan.at { Some(at) => if plan.transient { k == at } else { k >= at }, None => false } || self.raised.get();
        // `Q`: the value goes to a SolverCache call made from inside the provider's sort_candidates, which cannot hand it to
        // the solver; `P`: the value goes to the solver itself
        self.log.borrow_mut().push(format!("{}{}", if fire { if self.in_sort.get() > 0 { 'Q' } else { 'P' } } else { 'p' }, k));
        // a look-ahead provider swallows a refusal it receives inside sort_candidates; the value the solver reports is then
        // that of one of its own later polls - only a constant value is preserved, so such providers return the first one
        if fire && self.sort_peeks_deps && self.first_fired.get().is_none() { self.first_fired.set(Some(k)); }
        let v = if self.sort_peeks_deps { self.first_fired.get().unwrap_or(k) } else { k };
        if fire { Some(Box::new(7000u64 + v as u64)) } else { None }
    }
}

/// A future all of whose polls run with a counter raised.
struct Flagged<'a, T> { f: std::pin::Pin<Box<dyn Future<Output = T> + 'a>>, flag: &'a Cell<u32> }
impl<T> Future for Flagged<'_, T> {
    type Output = T;
    fn poll(mut self: std::pin::Pin<&mut Self>, cx: &mut std::task::Context<'_>) -> std::task::Poll<T> {
        self.flag.set(self.flag.get() + 1);
        let r = self.f.as_mut().poll(cx);
        self.flag.set(self.flag.get() - 1);
        r
    }
}

/// How the environment picks the next outstanding request to complete.
pub enum Schedule { Fifo, Lifo, Random(RefCell<Rng>), Script(RefCell<Vec<usize>>) }

/// Single-threaded manual executor: polls the solver's future; when it is quiescent (Pending
/// without a pending self-wake) it completes one outstanding provider request chosen by the schedule.
pub struct ManualRuntime { pub gates: Rc<Gates>, pub schedule: Schedule, pub max_steps: usize }

struct Flag(AtomicBool);
impl Wake for Flag { fn wake(self: Arc<Self>) { self.0.store(true, Ordering::SeqCst); } }

impl AsyncRuntime for ManualRuntime {
    fn block_on<F: Future>(&self, f: F) -> F::Output {
        let mut f = Box::pin(f);
        let flag = Arc::new(Flag(AtomicBool::new(false)));
        let waker = Waker::from(flag.clone());
        let mut cx = Context::from_waker(&waker);
        let mut steps = 0usize;
        loop {
            flag.0.store(false, Ordering::SeqCst);
            if let Poll::Ready(v) = f.as_mut().poll(&mut cx) { return v; }
            if flag.0.load(Ordering::SeqCst) { continue; }
            steps += 1;
            if steps > self.max_steps { panic!("manual runtime: step limit"); }
            let open = self.gates.open();
            {
                let g = self.gates.gates.borrow();
                let mut labels: Vec<String> = open.iter().map(|&i| g[i].label.clone()).collect();
                labels.sort();
                self.gates.events.borrow_mut().push(format!("pending {}", labels.join(" ")));
            }
            if open.is_empty() { panic!("DEADLOCK: solver is pending but no provider request is outstanding"); }
            let k = match &self.schedule {
                Schedule::Fifo => 0,
                Schedule::Lifo => open.len() - 1,
                Schedule::Random(r) => r.borrow_mut().below(open.len() as u64) as usize,
                Schedule::Script(s) => { let mut s = s.borrow_mut(); if s.is_empty() { 0 } else { s.remove(0) % open.len() } }
            };
            let w = {
                let mut g = self.gates.gates.borrow_mut();
                // `<label>` = the oldest outstanding request with this label, `<label> <k>` = the k-th oldest
                let ordinal = open[..=k].iter().filter(|&&i| g[i].label == g[open[k]].label).count();
                let gate = &mut g[open[k]];
                gate.done = true;
                self.gates.events.borrow_mut().push(if ordinal == 1 { format!("complete {}", gate.label) } else { format!("complete {} {ordinal}", gate.label) });
                gate.waker.take()
            };
            if let Some(w) = w { w.wake(); }
        }
    }
}
