// C++ harness for the resolvo C++ binding (property C17). See SPEC.md / README.md.
//
//   cpp_harness solve      <cases-file> <out-file>
//   cpp_harness containers <ops-file>   <out-file>
//
// Every case runs in a forked child. The child writes the body of its block to a pipe and
// its stderr to an (unlinked) temporary file; the parent writes `case …` / `end` and, on an
// abnormal exit of the child, `result abort …` or `result sanitizer` + `detail …`.
#include <resolvo.h>

#include <fcntl.h>
#include <signal.h>
#include <sys/types.h>
#include <sys/wait.h>
#include <unistd.h>

#include <algorithm>
#include <array>
#include <cctype>
#include <cerrno>
#include <cstdint>
#include <cstdio>
#include <cstdlib>
#include <cstring>
#include <fstream>
#include <functional>
#include <map>
#include <string>
#include <string_view>
#include <utility>
#include <vector>

// ---------------------------------------------------------------------------------------------
// Sanitizer runtime configuration (harmless when the program is built without sanitizers).
// Any report makes the process exit with code 99; UBSan is made fatal.
// ---------------------------------------------------------------------------------------------
static const int kSanitizerExit = 99;
extern "C" const char *__asan_default_options() {
    // free_fill: freed memory is overwritten with 0xe5, so that a use-after-free committed by the
    // (uninstrumented) Rust half of the binding reads garbage instead of the stale, plausible
    // contents; fast_unwind_on_malloc=0: alloc/free stacks have to be unwound through Rust frames.
    return "exitcode=99:halt_on_error=1:abort_on_error=0:detect_leaks=1:handle_abort=0:"
           "detect_stack_use_after_return=1:strict_string_checks=1:fast_unwind_on_malloc=0:"
           "max_free_fill_size=1048576:free_fill_byte=229";
}
extern "C" const char *__ubsan_default_options() {
    return "halt_on_error=1:exitcode=99:print_stacktrace=1";
}
extern "C" const char *__lsan_default_options() { return "exitcode=99"; }

// ---------------------------------------------------------------------------------------------
// small helpers
// ---------------------------------------------------------------------------------------------
using Lines = std::vector<std::string>;

static std::vector<std::string> split(const std::string &l) {
    std::vector<std::string> t;
    size_t i = 0;
    while (i < l.size()) {
        while (i < l.size() && l[i] == ' ') ++i;
        size_t j = i;
        while (j < l.size() && l[j] != ' ') ++j;
        if (j > i) t.push_back(l.substr(i, j - i));
        i = j;
    }
    return t;
}

static bool parse_u32(const std::string &s, uint32_t &out) {
    if (s.empty()) return false;
    uint64_t v = 0;
    for (char c : s) {
        if (c < '0' || c > '9') return false;
        v = v * 10 + static_cast<uint64_t>(c - '0');
        if (v > 0xffffffffull) return false;
    }
    out = static_cast<uint32_t>(v);
    return true;
}

static uint32_t must_u32(const std::string &s) {
    uint32_t v = 0;
    if (!parse_u32(s, v)) {
        fprintf(stderr, "cpp_harness: bad number '%s'\n", s.c_str());
        exit(3);
    }
    return v;
}

struct CaseBlock {
    std::string id;
    std::string family;
    Lines lines;
};

static std::vector<CaseBlock> read_blocks(const char *path) {
    std::ifstream in(path);
    if (!in) {
        fprintf(stderr, "cpp_harness: cannot open %s\n", path);
        exit(2);
    }
    std::vector<CaseBlock> blocks;
    bool open = false;
    CaseBlock cur;
    std::string line;
    while (std::getline(in, line)) {
        if (!line.empty() && line.back() == '\r') line.pop_back();
        if (line.rfind("case ", 0) == 0) {
            auto t = split(line);
            cur = CaseBlock{};
            cur.id = t.size() > 1 ? t[1] : "?";
            cur.family = t.size() > 2 ? t[2] : "?";
            open = true;
        } else if (line == "end") {
            if (open) blocks.push_back(cur);
            open = false;
        } else if (open) {
            cur.lines.push_back(line);
        }
    }
    return blocks;
}

// ---------------------------------------------------------------------------------------------
// fork machinery
// ---------------------------------------------------------------------------------------------
struct ChildResult {
    std::string out;   // what the child wrote to the pipe
    std::string err;   // captured stderr
    int status = 0;    // waitpid status
};

static std::string read_all(int fd) {
    std::string s;
    char buf[65536];
    for (;;) {
        ssize_t n = read(fd, buf, sizeof buf);
        if (n > 0) {
            s.append(buf, static_cast<size_t>(n));
        } else if (n == 0) {
            break;
        } else if (errno != EINTR) {
            break;
        }
    }
    return s;
}

static unsigned timeout_seconds() {
    const char *e = getenv("CPP_HARNESS_TIMEOUT");
    if (e && *e) return static_cast<unsigned>(atoi(e));
    return 120;
}

/// Runs `body(FILE*)` in a forked child. The child leaves through exit(0), so that static
/// destructors, atexit handlers and LeakSanitizer run.
static ChildResult run_child(const std::function<void(FILE *)> &body) {
    ChildResult r;
    int p[2];
    if (pipe(p) != 0) {
        perror("pipe");
        exit(2);
    }
    char tmpl[] = "/tmp/cpp_harness_err_XXXXXX";
    int efd = mkstemp(tmpl);
    if (efd < 0) {
        perror("mkstemp");
        exit(2);
    }
    unlink(tmpl);
    fflush(nullptr);
    pid_t pid = fork();
    if (pid < 0) {
        perror("fork");
        exit(2);
    }
    if (pid == 0) {
        close(p[0]);
        dup2(efd, 2);
        close(efd);
        alarm(timeout_seconds());
        FILE *o = fdopen(p[1], "w");
        body(o);
        fflush(o);
        fclose(o);
        exit(0);
    }
    close(p[1]);
    r.out = read_all(p[0]);
    close(p[0]);
    while (waitpid(pid, &r.status, 0) < 0 && errno == EINTR) {
    }
    lseek(efd, 0, SEEK_SET);
    r.err = read_all(efd);
    close(efd);
    return r;
}

static Lines to_lines(const std::string &s, bool only_complete) {
    Lines out;
    size_t i = 0;
    while (i < s.size()) {
        size_t j = s.find('\n', i);
        if (j == std::string::npos) {
            if (!only_complete) out.push_back(s.substr(i));
            break;
        }
        out.push_back(s.substr(i, j - i));
        i = j + 1;
    }
    return out;
}

/// strips `==1234==`, replaces hexadecimal addresses by `0x?` (ASLR) and control characters
static std::string normalize_report_line(std::string l) {
    if (l.rfind("==", 0) == 0) {
        size_t k = 2;
        while (k < l.size() && isdigit(static_cast<unsigned char>(l[k]))) ++k;
        if (k > 2 && k + 1 < l.size() && l[k] == '=' && l[k + 1] == '=') l = l.substr(k + 2);
    }
    std::string o;
    for (size_t i = 0; i < l.size();) {
        if (l[i] == '0' && i + 1 < l.size() && l[i + 1] == 'x') {
            size_t k = i + 2;
            while (k < l.size() && isxdigit(static_cast<unsigned char>(l[k]))) ++k;
            if (k > i + 2) {
                o += "0x?";
                i = k;
                continue;
            }
        }
        unsigned char c = static_cast<unsigned char>(l[i]);
        o += (c < 0x20) ? ' ' : l[i];
        ++i;
    }
    return o;
}

static bool is_sanitizer_report(const std::string &err) {
    return err.find("ERROR: AddressSanitizer") != std::string::npos ||
           err.find("ERROR: LeakSanitizer") != std::string::npos ||
           err.find("ERROR: UndefinedBehaviorSanitizer") != std::string::npos ||
           err.find("runtime error:") != std::string::npos ||
           err.find("Sanitizer: CHECK failed") != std::string::npos ||
           err.find("Sanitizer has encountered a fatal error") != std::string::npos;
}

/// First line of the report: the first `ERROR: …Sanitizer` / `runtime error:` / `panicked at`
/// line if there is one, else the first non-blank line that is not a `=====` ruler.
static std::string report_headline(const std::string &err) {
    Lines ls = to_lines(err, false);
    static const char *keys[] = {"ERROR: AddressSanitizer", "ERROR: LeakSanitizer",
                                 "runtime error:", "ERROR: UndefinedBehaviorSanitizer",
                                 "Sanitizer", "panicked at", "terminate called"};
    for (const char *k : keys) {
        for (size_t i = 0; i < ls.size(); ++i) {
            if (ls[i].find(k) != std::string::npos) {
                std::string l = ls[i];
                // rust prints the panic message on the following line
                if (std::string(k) == "panicked at" && i + 1 < ls.size()) l += " " + ls[i + 1];
                return normalize_report_line(l);
            }
        }
    }
    for (const auto &l : ls) {
        if (l.find_first_not_of("= \t") == std::string::npos) continue;
        return normalize_report_line(l);
    }
    return "";
}

/// First symbolized stack frame that lies in the binding's headers (`where …` line; extension).
static std::string report_header_frame(const std::string &err) {
    for (const auto &l : to_lines(err, false)) {
        size_t k = l.find("cpp/include/resolvo_");
        if (k == std::string::npos) continue;
        size_t in = l.find(" in ");
        if (in == std::string::npos || in > k) return normalize_report_line(l.substr(k + 12));
        // "<function> <dir>/cpp/include/resolvo_x.h:L:C" -> "<function> resolvo_x.h:L:C"
        size_t path = l.rfind(' ', k);
        std::string fn = l.substr(in + 4, path == std::string::npos || path < in + 4 ? 0 : path - in - 4);
        return normalize_report_line(fn + " " + l.substr(k + 12));
    }
    return "";
}

static void maybe_keep_stderr(const CaseBlock &c, const std::string &err) {
    const char *d = getenv("CPP_HARNESS_STDERR_DIR");
    if (!d || !*d || err.empty()) return;
    std::string path = std::string(d) + "/case-" + c.id + ".stderr";
    if (FILE *f = fopen(path.c_str(), "w")) {
        fwrite(err.data(), 1, err.size(), f);
        fclose(f);
    }
}

/// Writes the block of one case. `solve_mode`: the body lines of a failed child are written as
/// `partial <line>` *after* the result line (one `result` line per block); in containers mode the
/// (complete) lines the child managed to write come first, verbatim.
static bool write_block(FILE *out, const CaseBlock &c, const ChildResult &r, bool solve_mode) {
    bool normal = WIFEXITED(r.status) && WEXITSTATUS(r.status) == 0;
    fprintf(out, "case %s %s\n", c.id.c_str(), c.family.c_str());
    if (normal) {
        for (const auto &l : to_lines(r.out, false)) fprintf(out, "%s\n", l.c_str());
    } else {
        maybe_keep_stderr(c, r.err);
        Lines body = to_lines(r.out, true);
        if (!solve_mode)
            for (const auto &l : body) fprintf(out, "%s\n", l.c_str());
        bool san = (WIFEXITED(r.status) && WEXITSTATUS(r.status) == kSanitizerExit) ||
                   is_sanitizer_report(r.err);
        if (san) {
            fprintf(out, "result sanitizer\n");
        } else if (WIFSIGNALED(r.status)) {
            fprintf(out, "result abort signal %d\n", WTERMSIG(r.status));
        } else {
            fprintf(out, "result abort exit %d\n", WIFEXITED(r.status) ? WEXITSTATUS(r.status) : -1);
        }
        std::string h = report_headline(r.err);
        if (!h.empty()) fprintf(out, "detail %s\n", h.c_str());
        std::string w = report_header_frame(r.err);
        if (san && !w.empty()) fprintf(out, "where %s\n", w.c_str());
        if (solve_mode)
            for (const auto &l : body) fprintf(out, "partial %s\n", l.c_str());
    }
    fprintf(out, "end\n");
    fflush(out);
    return normal;
}

// ---------------------------------------------------------------------------------------------
// solve mode: table-driven provider
// ---------------------------------------------------------------------------------------------
struct Req {
    bool is_union;
    uint32_t id;
};
static Req parse_req(const std::string &s) {
    if (s.size() < 2 || (s[0] != 'v' && s[0] != 'u')) {
        fprintf(stderr, "cpp_harness: bad requirement '%s'\n", s.c_str());
        exit(3);
    }
    return Req{s[0] == 'u', must_u32(s.substr(1))};
}

enum class Hint { None, All, Some };

struct Pkg {
    std::vector<uint32_t> cands;
    bool has_fav = false, has_lock = false;
    // `Candidates::favored` / `locked` are raw pointers that the Rust side reads after
    // get_candidates returned: they have to point into storage owned by the provider.
    resolvo::SolvableId fav{0}, lock{0};
    std::vector<std::pair<uint32_t, uint32_t>> excluded;
    Hint hint = Hint::None;
    std::vector<uint32_t> hint_some;
};
struct Solv {
    uint32_t name = 0, rank = 0;
    bool known = true;
    uint32_t unknown_reason = 0;
    std::vector<Req> reqs;
    std::vector<uint32_t> cons;
};
struct VSet {
    uint32_t name = 0;
    std::vector<uint32_t> matching;
};

struct Universe {
    std::map<uint32_t, Pkg> pkgs;
    std::map<uint32_t, Solv> solvs;
    std::map<uint32_t, VSet> vsets;
    std::map<uint32_t, std::vector<resolvo::VersionSetId>> unions;
    bool has_problem = false;
    bool filter_rev = false;  // filter_candidates returns what it keeps in reverse input order
    std::vector<Req> p_reqs;
    std::vector<uint32_t> p_cons, p_soft;
};

static Universe parse_universe(const Lines &lines) {
    Universe u;
    for (const auto &l : lines) {
        auto t = split(l);
        if (t.empty()) continue;
        auto nums = [&](size_t from, const char *until, size_t &stop) {
            std::vector<uint32_t> v;
            size_t i = from;
            while (i < t.size() && !(until && t[i] == until)) v.push_back(must_u32(t[i++]));
            stop = i;
            return v;
        };
        size_t stop = 0;
        if (t[0] == "pkg") {
            Pkg p;
            uint32_t n = must_u32(t.at(1));
            p.cands = nums(3, "fav", stop);
            size_t i = stop;
            uint32_t x = 0;
            if (parse_u32(t.at(i + 1), x)) {
                p.has_fav = true;
                p.fav = resolvo::SolvableId{x};
            }
            if (parse_u32(t.at(i + 3), x)) {
                p.has_lock = true;
                p.lock = resolvo::SolvableId{x};
            }
            size_t j = i + 5;
            while (j < t.size() && t[j] != "hint") {
                size_t c = t[j].find(':');
                if (c == std::string::npos) {
                    fprintf(stderr, "cpp_harness: bad excl '%s'\n", t[j].c_str());
                    exit(3);
                }
                p.excluded.emplace_back(must_u32(t[j].substr(0, c)), must_u32(t[j].substr(c + 1)));
                ++j;
            }
            if (j + 1 < t.size()) {
                if (t[j + 1] == "all") {
                    p.hint = Hint::All;
                } else if (t[j + 1] == "some") {
                    p.hint = Hint::Some;
                    p.hint_some = nums(j + 2, nullptr, stop);
                }
            }
            u.pkgs[n] = p;
        } else if (t[0] == "solv") {
            Solv s;
            uint32_t id = must_u32(t.at(1));
            s.name = must_u32(t.at(3));
            s.rank = must_u32(t.at(5));
            if (t.at(6) == "unknown") {
                s.known = false;
                s.unknown_reason = must_u32(t.at(7));
            } else {
                size_t i = 8;
                while (i < t.size() && t[i] != "cons") s.reqs.push_back(parse_req(t[i++]));
                s.cons = nums(i + 1, nullptr, stop);
            }
            u.solvs[id] = s;
        } else if (t[0] == "vs") {
            VSet v;
            v.name = must_u32(t.at(3));
            v.matching = nums(5, nullptr, stop);
            u.vsets[must_u32(t.at(1))] = v;
        } else if (t[0] == "filterrev") {
            u.filter_rev = t.size() > 1 && t[1] == "1";
        } else if (t[0] == "union") {
            std::vector<resolvo::VersionSetId> m;
            for (uint32_t x : nums(3, nullptr, stop)) m.push_back(resolvo::VersionSetId{x});
            u.unions[must_u32(t.at(1))] = m;
        } else if (t[0] == "problem" && !u.has_problem) {
            u.has_problem = true;
            std::string mode;
            for (size_t i = 1; i < t.size(); ++i) {
                if (t[i] == "reqs" || t[i] == "cons" || t[i] == "soft") {
                    mode = t[i];
                } else if (mode == "reqs") {
                    u.p_reqs.push_back(parse_req(t[i]));
                } else if (mode == "cons") {
                    u.p_cons.push_back(must_u32(t[i]));
                } else if (mode == "soft") {
                    u.p_soft.push_back(must_u32(t[i]));
                }
            }
        }
    }
    return u;
}

static resolvo::Requirement to_requirement(const Req &r) {
    return r.is_union ? resolvo::requirement_union(resolvo::VersionSetUnionId{r.id})
                      : resolvo::requirement_single(resolvo::VersionSetId{r.id});
}

struct TableProvider : public resolvo::DependencyProvider {
    Universe u;
    /// solvables with `unknown` dependencies whose dependencies were requested: the binding's
    /// `Dependencies` struct has no way to express "unknown", they were answered with no deps.
    std::vector<uint32_t> unknown_requested;

    /// caching mode: the provider keeps the vectors it has handed out and answers with *copies* of them (which share
    /// their buffers), as a provider with its own metadata cache does; `cache_intact()` re-reads every kept vector
    bool cache_mode = false;
    bool point_into_candidates = false;
    std::map<uint32_t, resolvo::Candidates> cand_cache;
    std::map<uint32_t, resolvo::Dependencies> dep_cache;
    std::map<std::pair<uint32_t, bool>, resolvo::Vector<resolvo::SolvableId>> filter_cache;
    std::map<std::pair<uint32_t, bool>, std::vector<uint32_t>> filter_expect;

    explicit TableProvider(Universe universe) : u(std::move(universe)) {}

    resolvo::String display_solvable(resolvo::SolvableId s) override {
        return resolvo::String(std::to_string(s.id));
    }
    resolvo::String display_name(resolvo::NameId n) override {
        return resolvo::String("p" + std::to_string(n.id));
    }
    resolvo::String display_version_set(resolvo::VersionSetId v) override {
        return resolvo::String("vs" + std::to_string(v.id));
    }
    resolvo::String display_string(resolvo::StringId r) override {
        return resolvo::String("str" + std::to_string(r.id));
    }
    resolvo::String display_merged_solvables(resolvo::Slice<resolvo::SolvableId> slice) override {
        if (slice.empty()) return resolvo::String("");
        std::vector<std::string> versions;
        for (const resolvo::SolvableId &s : slice) versions.push_back(std::to_string(s.id));
        std::sort(versions.begin(), versions.end());
        versions.erase(std::unique(versions.begin(), versions.end()), versions.end());
        std::string text = "p" + std::to_string(solvable_name(*slice.begin()).id) + " ";
        for (size_t i = 0; i < versions.size(); ++i) {
            if (i) text += " | ";
            text += versions[i];
        }
        return resolvo::String(text);
    }

    resolvo::NameId version_set_name(resolvo::VersionSetId v) override {
        auto it = u.vsets.find(v.id);
        return resolvo::NameId{it == u.vsets.end() ? 0u : it->second.name};
    }
    resolvo::NameId solvable_name(resolvo::SolvableId s) override {
        auto it = u.solvs.find(s.id);
        return resolvo::NameId{it == u.solvs.end() ? 0u : it->second.name};
    }
    resolvo::Slice<resolvo::VersionSetId> version_sets_in_union(
        resolvo::VersionSetUnionId id) override {
        auto it = u.unions.find(id.id);
        if (it == u.unions.end() || it->second.empty())
            return resolvo::Slice<resolvo::VersionSetId>(nullptr, 0);
        return resolvo::Slice<resolvo::VersionSetId>(it->second.data(), it->second.size());
    }

    resolvo::Candidates build_candidates(resolvo::NameId n) {
        resolvo::Candidates c{};
        c.favored = nullptr;
        c.locked = nullptr;
        auto it = u.pkgs.find(n.id);
        if (it == u.pkgs.end()) return c;  // unknown package: empty Candidates
        const Pkg &p = it->second;
        for (uint32_t s : p.cands) c.candidates.push_back(resolvo::SolvableId{s});
        if (p.has_fav) c.favored = &p.fav;
        if (p.has_lock) c.locked = &p.lock;
        if (point_into_candidates) {
            // a provider that points favored / locked at the entries of the vector it returns
            const auto &cv = std::as_const(c.candidates);
            for (const resolvo::SolvableId &x : cv) {
                if (p.has_fav && x.id == p.fav.id) c.favored = &x;
                if (p.has_lock && x.id == p.lock.id) c.locked = &x;
            }
        }
        for (const auto &e : p.excluded)
            c.excluded.push_back(resolvo::ExcludedSolvable{resolvo::SolvableId{e.first},
                                                           resolvo::StringId{e.second}});
        if (p.hint == Hint::All) {
            for (uint32_t s : p.cands)
                c.hint_dependencies_available.push_back(resolvo::SolvableId{s});
        } else if (p.hint == Hint::Some) {
            for (uint32_t s : p.hint_some)
                c.hint_dependencies_available.push_back(resolvo::SolvableId{s});
        }
        return c;
    }

    void sort_candidates(resolvo::Slice<resolvo::SolvableId> solvables) override {
        auto rank = [this](const resolvo::SolvableId &s) -> uint32_t {
            auto it = u.solvs.find(s.id);
            return it == u.solvs.end() ? 0u : it->second.rank;
        };
        std::stable_sort(solvables.begin(), solvables.end(),
                         [&](const resolvo::SolvableId &a, const resolvo::SolvableId &b) {
                             return rank(a) < rank(b);
                         });
    }

    resolvo::Vector<resolvo::SolvableId> build_filter(
        resolvo::Slice<resolvo::SolvableId> candidates, resolvo::VersionSetId vs,
        bool inverse) {
        resolvo::Vector<resolvo::SolvableId> out;
        auto it = u.vsets.find(vs.id);
        for (const resolvo::SolvableId &c : candidates) {
            bool m = it != u.vsets.end() &&
                     std::find(it->second.matching.begin(), it->second.matching.end(), c.id) !=
                         it->second.matching.end();
            if (m != inverse) out.push_back(c);
        }
        if (u.filter_rev) {
            // the trait promises no order: this provider answers newest-first
            resolvo::Vector<resolvo::SolvableId> rev;
            for (size_t i = std::as_const(out).size(); i > 0; --i) rev.push_back(std::as_const(out)[i - 1]);
            return rev;
        }
        return out;
    }

    resolvo::Dependencies build_dependencies(resolvo::SolvableId s) {
        resolvo::Dependencies d{};
        auto it = u.solvs.find(s.id);
        if (it == u.solvs.end()) return d;
        const Solv &sv = it->second;
        if (!sv.known) {
            // The generated `struct Dependencies` only has `requirements` and `constrains`
            // (and the Rust side of the bridge always builds `Dependencies::Known`): there is no
            // way to express `Dependencies::Unknown(reason)` through the binding.
            unknown_requested.push_back(s.id);
            return d;
        }
        for (const Req &r : sv.reqs) d.requirements.push_back(to_requirement(r));
        for (uint32_t c : sv.cons) d.constrains.push_back(resolvo::VersionSetId{c});
        return d;
    }

    resolvo::Candidates get_candidates(resolvo::NameId n) override {
        if (!cache_mode) return build_candidates(n);
        auto it = cand_cache.find(n.id);
        if (it == cand_cache.end()) it = cand_cache.emplace(n.id, build_candidates(n)).first;
        return it->second;  // copy: the vectors share their buffers with the cached ones
    }

    resolvo::Dependencies get_dependencies(resolvo::SolvableId sid) override {
        if (!cache_mode) return build_dependencies(sid);
        auto it = dep_cache.find(sid.id);
        if (it == dep_cache.end()) it = dep_cache.emplace(sid.id, build_dependencies(sid)).first;
        return it->second;
    }

    resolvo::Vector<resolvo::SolvableId> filter_candidates(
        resolvo::Slice<resolvo::SolvableId> candidates, resolvo::VersionSetId vs,
        bool inverse) override {
        if (!cache_mode) return build_filter(candidates, vs, inverse);
        auto key = std::make_pair(vs.id, inverse);
        auto it = filter_cache.find(key);
        if (it == filter_cache.end()) {
            it = filter_cache.emplace(key, build_filter(candidates, vs, inverse)).first;
            std::vector<uint32_t> e;
            for (const resolvo::SolvableId &x : std::as_const(it->second)) e.push_back(x.id);
            filter_expect[key] = e;
        }
        return it->second;
    }

    /// every vector the provider kept still has the contents it was built with
    bool cache_intact() {
        for (auto &kv : cand_cache) {
            resolvo::Candidates fresh = build_candidates(resolvo::NameId{kv.first});
            if (!(kv.second.candidates == fresh.candidates)) return false;
            if (!(kv.second.hint_dependencies_available == fresh.hint_dependencies_available)) return false;
            if (std::as_const(kv.second.excluded).size() != std::as_const(fresh.excluded).size()) return false;
        }
        for (auto &kv : dep_cache) {
            auto it = u.solvs.find(kv.first);
            if (it == u.solvs.end() || !it->second.known) continue;
            if (std::as_const(kv.second.requirements).size() != it->second.reqs.size()) return false;
            resolvo::Vector<resolvo::VersionSetId> cons;
            for (uint32_t c : it->second.cons) cons.push_back(resolvo::VersionSetId{c});
            if (!(kv.second.constrains == cons)) return false;
        }
        for (auto &kv : filter_cache) {
            const std::vector<uint32_t> &e = filter_expect[kv.first];
            if (std::as_const(kv.second).size() != e.size()) return false;
            size_t i = 0;
            for (const resolvo::SolvableId &x : std::as_const(kv.second)) if (x.id != e[i++]) return false;
        }
        return true;
    }
};

static std::string hex(std::string_view s) {
    static const char *digits = "0123456789abcdef";
    std::string o;
    o.reserve(s.size() * 2);
    for (unsigned char c : s) {
        o += digits[c >> 4];
        o += digits[c & 15];
    }
    return o;
}

static void solve_case_body(const CaseBlock &c, FILE *o) {
    TableProvider provider(parse_universe(c.lines));
    if (!provider.u.has_problem) {  // like the Rust harness: nothing to solve
        fprintf(o, "note no-problem-line\n");
        return;
    }
    resolvo::Vector<resolvo::Requirement> reqs;
    resolvo::Vector<resolvo::VersionSetId> cons;
    resolvo::Vector<resolvo::SolvableId> soft;
    for (const Req &r : provider.u.p_reqs) reqs.push_back(to_requirement(r));
    for (uint32_t v : provider.u.p_cons) cons.push_back(resolvo::VersionSetId{v});
    for (uint32_t s : provider.u.p_soft) soft.push_back(resolvo::SolvableId{s});
    resolvo::Problem problem = {reqs, cons, soft};

    // every second case: a provider that keeps what it hands out and answers with copies
    provider.cache_mode = !c.id.empty() && ((c.id.back() - '0') % 2) == 1;
    provider.point_into_candidates = !c.id.empty() && ((c.id.back() - '0') % 4) == 0;
    resolvo::Vector<resolvo::SolvableId> result;
    resolvo::String error = resolvo::solve(provider, problem, result);
    std::string_view message = error;
    // every fifth case: solve a second time into the same (now non-empty) result vector, keeping a copy of the first
    // answer; the binding has to release what `result` held, the copy has to stay intact and both answers agree
    if (message.empty() && !c.id.empty() && ((c.id.back() - '0') % 5) == 2) {
        resolvo::Vector<resolvo::SolvableId> first = result;
        TableProvider again(parse_universe(c.lines));
        resolvo::String error2 = resolvo::solve(again, problem, result);
        std::string_view message2 = error2;
        bool same = message2.empty() && first == result;
        first.clear();   // sole owner of its buffer again: must not disturb `result`
        if (!same) {
            fprintf(o, "result abort a second solve into the reused result vector gave a different answer\n");
            return;
        }
    }
    if (provider.cache_mode && !provider.cache_intact()) {
        fprintf(o, "result abort the vectors kept by the provider no longer have their contents after solve()\n");
        return;
    }

    // resolvo::solve() drops the bool returned by resolvo_solve: success == empty error string.
    if (message.empty()) {
        fprintf(o, "result ok\n");
        fprintf(o, "solution");
        for (const resolvo::SolvableId &s : std::as_const(result)) fprintf(o, " %u", s.id);
        fprintf(o, "\n");
    } else {
        fprintf(o, "result unsat\n");
        fprintf(o, "message %s\n", hex(message).c_str());
        if (!std::as_const(result).empty()) fprintf(o, "note result-vector-not-empty-on-unsat\n");
    }
    if (!provider.unknown_requested.empty()) {
        // extension (not in SPEC.md): explains expected differences with the Rust API
        fprintf(o, "note unknown-deps-not-expressible");
        for (uint32_t s : provider.unknown_requested) fprintf(o, " %u", s);
        fprintf(o, "\n");
    }
}

// ---------------------------------------------------------------------------------------------
// containers mode
// ---------------------------------------------------------------------------------------------
using Vec = resolvo::Vector<uint32_t>;

static void print_vec(FILE *o, unsigned h, const Vec &v) {
    fprintf(o, "vec %u", h);
    for (const uint32_t *it = v.cbegin(); it != v.cend(); ++it) fprintf(o, " %u", *it);
    fprintf(o, "\n");
}
static void print_str(FILE *o, unsigned h, const resolvo::String &s) {
    std::string_view v = s;
    if (v.empty()) {
        fprintf(o, "str %u \"\"\n", h);
    } else {
        fprintf(o, "str %u %.*s\n", h, static_cast<int>(v.size()), v.data());
    }
}

static bool handle(const std::string &tok, char kind, unsigned &h) {
    if (tok.size() != 2 || tok[0] != kind || tok[1] < '0' || tok[1] > '7') return false;
    h = static_cast<unsigned>(tok[1] - '0');
    return true;
}

static void containers_case_body(const CaseBlock &c, FILE *o) {
    {
        std::array<Vec, 8> v;
        std::array<resolvo::String, 8> s;
        for (const auto &line : c.lines) {
            auto t = split(line);
            if (t.empty()) continue;
            const std::string &op = t[0];
            // self-test operations for the fork / sanitizer plumbing (never generated by the framework)
            if (op == "xleak") {
                volatile char *leaked = static_cast<char *>(malloc(64));
                leaked[0] = 1;
                leaked = nullptr;
                fprintf(o, "leaked 64\n");
                fflush(o);
                continue;
            }
            if (op == "xabort") {
                fflush(o);
                abort();
            }
            if (op == "xthrow") {
                fflush(o);
                throw 1;
            }
            unsigned h = 0, g = 0;
            bool is_vec_op = op[0] == 'v';
            char kind = is_vec_op ? 'v' : 's';
            bool two = op == "vcopy" || op == "vassign" || op == "vmove" || op == "veq" ||
                       op == "scopy" || op == "sassign" || op == "smove" || op == "seq";
            if (t.size() < 2 || !handle(t[1], kind, h) ||
                (two && (t.size() < 3 || !handle(t[2], kind, g)))) {
                fprintf(o, "skip bad-handle %s\n", line.c_str());
                fflush(o);
                continue;
            }
            auto idx = [&](size_t k, size_t &out) {
                uint32_t x = 0;
                if (t.size() <= k || !parse_u32(t[k], x) || x >= std::as_const(v[h]).size())
                    return false;
                out = x;
                return true;
            };
            size_t i = 0;
            if (op == "vrange") {
                // the iterator-range constructor for every size (incl. 0..4)
                std::vector<uint32_t> xs;
                for (size_t k = 2; k < t.size(); ++k) xs.push_back(must_u32(t[k]));
                v[h] = Vec(xs.begin(), xs.end());
                print_vec(o, h, v[h]);
            } else if (op == "vinit") {
                switch (t.size() - 2) {  // a real braced-init-list for the common small sizes
                    case 0: v[h] = Vec{}; break;
                    case 1: v[h] = Vec{must_u32(t[2])}; break;
                    case 2: v[h] = Vec{must_u32(t[2]), must_u32(t[3])}; break;
                    case 3: v[h] = Vec{must_u32(t[2]), must_u32(t[3]), must_u32(t[4])}; break;
                    case 4:
                        v[h] = Vec{must_u32(t[2]), must_u32(t[3]), must_u32(t[4]), must_u32(t[5])};
                        break;
                    default: {
                        std::vector<uint32_t> xs;
                        for (size_t k = 2; k < t.size(); ++k) xs.push_back(must_u32(t[k]));
                        v[h] = Vec(xs.begin(), xs.end());
                    }
                }
                print_vec(o, h, v[h]);
            } else if (op == "vcopy") {
                v[h] = Vec(v[g]);
                print_vec(o, h, v[h]);
            } else if (op == "vassign") {
                const Vec &src = v[g];
                v[h] = src;
                print_vec(o, h, v[h]);
            } else if (op == "vmove") {
                v[h] = std::move(v[g]);
                print_vec(o, h, v[h]);
                print_vec(o, g, v[g]);
            } else if (op == "vpush") {
                const uint32_t x = must_u32(t.at(2));
                v[h].push_back(x);
                print_vec(o, h, v[h]);
            } else if (op == "vspan") {
                // mutable end() evaluated before mutable begin(): both have to refer to the same (detached) buffer
                Vec &w = v[h];
                uint32_t *e = w.end();
                uint32_t *b = w.begin();
                unsigned long long sum = 0;
                for (uint32_t *it = b; it != e && it < b + (1u << 20); ++it) sum += *it;
                fprintf(o, "span %td sum %llu\n", e - b, sum);
            } else if (op == "vpushmove") {
                if (!idx(2, i)) {
                    fprintf(o, "skip index-out-of-range %s\n", line.c_str());
                } else {
                    // push_back(T&&) with an element of the vector itself
                    v[h].push_back(std::move(v[h][i]));
                    print_vec(o, h, v[h]);
                }
            } else if (op == "vpushself") {
                if (!idx(2, i)) {
                    fprintf(o, "skip index-out-of-range %s\n", line.c_str());
                } else {
                    const uint32_t &ref = std::as_const(v[h])[i];
                    v[h].push_back(ref);
                    print_vec(o, h, v[h]);
                }
            } else if (op == "vclear") {
                v[h].clear();
                print_vec(o, h, v[h]);
            } else if (op == "vset") {
                if (!idx(2, i) || t.size() < 4) {
                    fprintf(o, "skip index-out-of-range %s\n", line.c_str());
                } else {
                    v[h][i] = must_u32(t[3]);
                    print_vec(o, h, v[h]);
                }
            } else if (op == "vget") {
                if (!idx(2, i)) {
                    fprintf(o, "skip index-out-of-range %s\n", line.c_str());
                } else {
                    fprintf(o, "val %u\n", std::as_const(v[h])[i]);
                }
            } else if (op == "vsize") {
                const Vec &cv = v[h];
                fprintf(o, "size %zu cap-ge-size %d\n", cv.size(), cv.capacity() >= cv.size() ? 1 : 0);
            } else if (op == "veq") {
                fprintf(o, "eq %d\n", (v[h] == v[g]) ? 1 : 0);
            } else if (op == "vslice") {
                const Vec &cv = v[h];
#ifdef TRY_CONST_SLICE_CONVERSION
                // Does not compile with the unmodified headers (see README.md):
                // `Vector<T>::operator Slice<const T>() const` returns a Slice<T>.
                resolvo::Slice<const uint32_t> sl = cv;
#else
                resolvo::Slice<const uint32_t> sl(cv.cbegin(), cv.size());
#endif
                uint64_t sum = 0;
                for (const uint32_t *it = sl.cbegin(); it != sl.cend(); ++it) sum += *it;
                fprintf(o, "sum %llu\n", static_cast<unsigned long long>(sum));
            } else if (op == "sset") {
                std::string text = t.size() > 2 ? t[2] : "";
                if (text == "\"\"") text.clear();
                s[h] = resolvo::String(std::string_view(text));
                print_str(o, h, s[h]);
            } else if (op == "ssub") {
                uint32_t k = 0;
                if (t.size() < 3 || !parse_u32(t[2], k)) { fprintf(o, "skip bad-op %s\n", line.c_str()); continue; }
                std::string_view own = s[h];
                s[h] = own.substr(std::min<size_t>(k, own.size()));   // a view into the string itself
                print_str(o, h, s[h]);
            } else if (op == "snull") {
                s[h] = resolvo::String(std::string_view{});            // data() == nullptr, size() == 0
                print_str(o, h, s[h]);
            } else if (op == "scopy") {
                s[h] = resolvo::String(s[g]);
                print_str(o, h, s[h]);
            } else if (op == "sassign") {
                const resolvo::String &src = s[g];
                s[h] = src;
                print_str(o, h, s[h]);
            } else if (op == "smove") {
                s[h] = std::move(s[g]);
                print_str(o, h, s[h]);
                print_str(o, g, s[g]);
            } else if (op == "sview") {
                std::string_view sv = s[h];
                fprintf(o, "len %zu %zu\n", sv.size(), strlen(s[h].data()));
            } else if (op == "seq") {
                fprintf(o, "eq %d\n", (s[h] == s[g]) ? 1 : 0);
            } else {
                fprintf(o, "skip unknown-op %s\n", line.c_str());
            }
            fflush(o);  // the parent must see everything that was printed before a crash
        }
    }
    fprintf(o, "leak-check done\n");
    fflush(o);
}

// ---------------------------------------------------------------------------------------------
int main(int argc, char **argv) {
    if (argc != 4 || (strcmp(argv[1], "solve") != 0 && strcmp(argv[1], "containers") != 0)) {
        fprintf(stderr,
                "usage: cpp_harness solve <cases-file> <out-file>\n"
                "       cpp_harness containers <ops-file> <out-file>\n"
                "env:   CPP_HARNESS_TIMEOUT=<seconds per case, default 120>\n"
                "       CPP_HARNESS_STDERR_DIR=<dir: keep the stderr of failed children>\n");
        return 2;
    }
    const bool solve_mode = strcmp(argv[1], "solve") == 0;
    signal(SIGPIPE, SIG_IGN);
    std::vector<CaseBlock> blocks = read_blocks(argv[2]);
    FILE *out = fopen(argv[3], "w");
    if (!out) {
        fprintf(stderr, "cpp_harness: cannot write %s\n", argv[3]);
        return 2;
    }
    size_t failed = 0;
    for (const CaseBlock &c : blocks) {
        ChildResult r = run_child([&](FILE *o) {
            fclose(out);  // the child never touches the out-file
            if (solve_mode) {
                solve_case_body(c, o);
            } else {
                containers_case_body(c, o);
            }
        });
        if (!write_block(out, c, r, solve_mode)) ++failed;
    }
    fclose(out);
    fprintf(stderr, "cpp_harness: %zu cases, %zu with abnormal child exit\n", blocks.size(), failed);
    return 0;
}
