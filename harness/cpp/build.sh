#!/usr/bin/env bash
# Builds the resolvo C++ binding (static library + cbindgen headers) and the C++ harness.
# Idempotent, offline. Output: /verif/build/cpp/cpp_harness (+ /verif/build/cpp/BUILD_INFO).
set -e
set -o pipefail

HERE="$(cd "$(dirname "${BASH_SOURCE[0]}")" && pwd)"
# Defaults are the locations fixed by SPEC.md; the overrides exist to build against another source
# tree (e.g. a pristine `git archive` of /repo while /repo itself is being mutated).
REPO="${VERIF_REPO:-/repo}"
VROOT="$(cd "$HERE/../.." && pwd)"
OUT="${VERIF_CPP_OUT:-$VROOT/build/cpp}"
GEN_INC="$OUT/include"
TARGET="${VERIF_CPP_TARGET:-$VROOT/build/cpp-target}"
LIB="$TARGET/debug/libresolvo_cpp.a"
SRC="$HERE/cpp_harness.cpp"
EXE="$OUT/cpp_harness"

mkdir -p "$OUT" "$GEN_INC"

echo "[build.sh] 1/2 cargo build -p resolvo_cpp (debug, offline)"
(
    cd "$REPO"   # so that /repo/rust-toolchain (1.86.0) is picked up
    CARGO_NET_OFFLINE=true \
    CARGO_TARGET_DIR="$TARGET" \
    RESOLVO_GENERATED_INCLUDE_DIR="$GEN_INC" \
        cargo build --offline -p resolvo_cpp
)
test -f "$LIB" || { echo "[build.sh] missing $LIB" >&2; exit 1; }
test -f "$GEN_INC/resolvo_internal.h" || { echo "[build.sh] missing generated headers in $GEN_INC" >&2; exit 1; }

INCLUDES=(-I"$REPO/cpp/include" -I"$GEN_INC")
LIBS=("$LIB" -lpthread -ldl -lm)

echo "[build.sh] 2/2 compiling the harness"
SAN_FLAGS=(-std=c++17 -g -O1 -fsanitize=address,undefined -fno-omit-frame-pointer -DTRY_CONST_SLICE_CONVERSION)
if command -v clang++-14 >/dev/null 2>&1 &&
   clang++-14 "${SAN_FLAGS[@]}" "${INCLUDES[@]}" "$SRC" "${LIBS[@]}" -o "$EXE.tmp" 2>"$OUT/compile.log"; then
    mv -f "$EXE.tmp" "$EXE"
    echo "compiler=clang++-14 sanitizers=address,undefined" > "$OUT/BUILD_INFO"
    echo "[build.sh] built with clang++-14, ASan+UBSan ACTIVE"
else
    echo "[build.sh] clang++-14 + sanitizers failed (see $OUT/compile.log); falling back to g++ WITHOUT sanitizers" >&2
    cat "$OUT/compile.log" >&2 || true
    rm -f "$EXE.tmp"
    g++ -std=c++17 -g -O1 -fno-omit-frame-pointer "${INCLUDES[@]}" "$SRC" "${LIBS[@]}" -o "$EXE"
    echo "compiler=g++ sanitizers=none" > "$OUT/BUILD_INFO"
    echo "[build.sh] built with g++, sanitizers NOT active"
fi

# the symbolizer makes the `where …` lines of sanitizer findings possible (optional)
if ! command -v llvm-symbolizer >/dev/null 2>&1; then
    for c in /usr/bin/llvm-symbolizer-14 /usr/lib/llvm-14/bin/llvm-symbolizer; do
        if [ -x "$c" ]; then echo "symbolizer=$c" >> "$OUT/BUILD_INFO"; break; fi
    done
fi
cat "$OUT/BUILD_INFO"
echo "[build.sh] ok: $EXE"
