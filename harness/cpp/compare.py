#!/usr/bin/env python3
"""Compares the output of `cpp_harness solve` with the `--out-impl` file of the Rust harness.

usage: compare.py <rust-impl-file> <cpp-out-file> [--verbose]

Only the first solve of every case is compared (the C++ harness solves only the first `problem`
line): `result`, `solution` (order included) and `message` (hex of the rendered conflict).
Prints one line per disagreeing case and a summary; exit code 1 if there is a disagreement that is
not explained by a `note unknown-deps-not-expressible` line of the C++ side.
"""
import sys


def blocks(path):
    out, cur, key = {}, None, None
    for line in open(path, encoding="utf-8", errors="replace"):
        line = line.rstrip("\n")
        if line.startswith("case "):
            key = line.split(" ")[1]
            cur = []
        elif line == "end":
            if cur is not None:
                out[key] = cur
            cur = None
        elif cur is not None:
            cur.append(line)
    return out


def first_solve(lines):
    """result / solution / message of the first solve of a block"""
    d = {}
    solves = 0
    for l in lines:
        if l.startswith("solve "):
            solves += 1
            if solves > 1:
                break
        for k in ("result", "solution", "message", "detail"):
            if (l == k or l.startswith(k + " ")) and k not in d:
                d[k] = l[len(k):].strip()
    d["notes"] = [l for l in lines if l.startswith("note ")]
    return d


def unhex(h):
    try:
        return bytes.fromhex(h).decode("utf-8", errors="replace")
    except ValueError:
        return h


def main():
    if len(sys.argv) < 3:
        print(__doc__)
        return 2
    verbose = "--verbose" in sys.argv
    rust, cpp = blocks(sys.argv[1]), blocks(sys.argv[2])
    agree = explained = unexplained = missing = 0
    for key, rl in rust.items():
        if key not in cpp:
            missing += 1
            print(f"case {key}: missing in the C++ output")
            continue
        r, c = first_solve(rl), first_solve(cpp[key])
        same = all(r.get(k) == c.get(k) for k in ("result", "solution", "message"))
        if same:
            agree += 1
            continue
        unknown = any(n.startswith("note unknown-deps-not-expressible") for n in c["notes"])
        if unknown:
            explained += 1
        else:
            unexplained += 1
        tag = "explained(unknown-deps)" if unknown else "UNEXPLAINED"
        print(f"case {key}: {tag} rust=[{r.get('result')}] cpp=[{c.get('result')}] {' '.join(c['notes'])}")
        if verbose:
            for k in ("solution", "message", "detail"):
                if r.get(k) != c.get(k):
                    rv, cv = r.get(k), c.get(k)
                    if k == "message":
                        rv, cv = unhex(rv or ""), unhex(cv or "")
                    print(f"    rust {k}: {rv!r}")
                    print(f"    cpp  {k}: {cv!r}")
    total = len(rust)
    print(f"summary: cases={total} agree={agree} explained-by-unknown-deps={explained} "
          f"unexplained={unexplained} missing={missing}")
    return 1 if (unexplained or missing) else 0


if __name__ == "__main__":
    sys.exit(main())
